package c18

import (
	"bytes"
	"fmt"
	"math"
	"math/big"
	"sort"
	"strconv"
	"strings"

	"github.com/cloudwego/dynamicgo/verifhook"

	"verif/engine/core"
	"verif/ref/tbin"
)

// oracle kinds per (document, option set)
const (
	oDiff    = 0 // conforming input: all implementations agree (same bytes, or all fail)
	oReject  = 1 // value kinds contradict the descriptor: every implementation must fail
	oObserve = 2 // outside the statement's domain: recorded, nothing demanded
)

var flavourNames = []string{"avx2", "avx", "sse"}
var flavoursOK []string
var flavoursInit bool

// Flavours returns the SIMD flavours this CPU can run (bound through the hook).
func Flavours() []string {
	if !flavoursInit {
		flavoursInit = true
		for _, f := range flavourNames {
			if verifhook.C18UseFlavour(f) {
				flavoursOK = append(flavoursOK, f)
			}
		}
	}
	return flavoursOK
}

// j2tDoc is one "program" of the differential: a (descriptor, document) pair.
type j2tDoc struct {
	Fam    string // descriptive family (Desc / Tag)
	Trig   string // trigger class used in signatures of disagreements on conforming documents
	MM     string // trigger class used in signatures of accepted kind mismatches: json-<kind>->thrift-<class>@<pos>
	IDL    string
	Inner  bool
	Doc    string
	Oracle func(bits int) int
	Ref    func(bits int) []byte // expected encoding where the harness knows it (classes only)
	Tag    string
	OrBits int // option bits set in EVERY option subset of this document (bits beyond the five swept ones)
}

type j2tDesc struct {
	Op    string `json:"op"`
	Fam   string `json:"family"`
	IDL   string `json:"idl"`
	Inner bool   `json:"desc_is_field1,omitempty"`
	Doc   string `json:"json"`
}

func clip(s string, n int) string {
	if len(s) > n {
		return fmt.Sprintf("%s...(%d bytes)", s[:n], len(s))
	}
	return s
}

func hexs(b []byte) string {
	if len(b) > 64 {
		return fmt.Sprintf("%x..(%d)", b[:64], len(b))
	}
	return fmt.Sprintf("%x", b)
}

func (d *j2tDoc) Case() core.Case {
	return core.Case{
		Tag: "j2t:" + d.Fam,
		Desc: func() interface{} {
			return j2tDesc{"j2t avx2/avx/sse/portable", d.Fam, d.IDL, d.Inner, clip(d.Doc, 600)}
		},
		Run: d.run,
	}
}

func (d *j2tDoc) run() core.Result {
	r := core.Result{Key: d.IDL + "|" + d.Doc}
	desc, err := DescFromIDL(d.IDL, d.Inner)
	if err != nil {
		r.Class = "harness-idl-error"
		r.Add("harness|idl-does-not-parse", "%v\n%s", err, d.IDL)
		return r
	}
	nopt := 1 << NOpts
	fl := Flavours()
	impls := append(append([]string{}, fl...), "portable")
	res := make([][]Outcome, len(impls))
	doc := []byte(d.Doc)
	for i, f := range fl {
		verifhook.C18UseFlavour(f)
		res[i] = make([]Outcome, nopt)
		for b := 0; b < nopt; b++ {
			res[i][b] = ConvertLocal(desc, b|d.OrBits, doc)
		}
	}
	if len(fl) > 0 {
		verifhook.C18UseFlavour(fl[0])
	}
	opts := make([]int, nopt)
	for b := range opts {
		opts[b] = b | d.OrBits
	}
	pr, died, diag, err := Portable(&Req{IDL: d.IDL, Inner: d.Inner, Opts: opts, Doc: doc})
	if err != nil {
		r.Class = "harness-portable-error"
		r.Add("harness|portable-server", "%v", err)
		return r
	}
	if died {
		r.Class = "portable-died"
		r.Add("j2t|"+d.trig()+"|portable-process-died-or-hung", "the portable converter process died or hung on this document:\n%s", diag)
		return r
	}
	res[len(impls)-1] = pr
	r.Count("programs", 1)
	r.Count("conversions", int64(nopt*len(impls)))
	r.Count("disagreements_checked", int64(nopt*(len(impls)-1)))
	if len(fl) < len(flavourNames) {
		r.Count("flavours_unavailable_on_this_cpu", int64(len(flavourNames)-len(fl)))
	}
	classes := map[string]bool{}
	type vio struct {
		sig, detail string
		bits        []int
	}
	var vios []*vio
	vidx := map[string]*vio{}
	add := func(bits int, sig, detail string) {
		v := vidx[sig]
		if v == nil {
			v = &vio{sig: sig, detail: detail}
			vidx[sig] = v
			vios = append(vios, v)
		}
		v.bits = append(v.bits, bits)
	}
	for b := 0; b < nopt; b++ {
		// panics are violations of nobody's statement here except that a panic is not "rejecting"
		// nor "producing bytes": classify it as its own outcome kind.
		kinds := make([]string, len(impls))
		allFail, allOK := true, true
		for i := range impls {
			kinds[i] = res[i][b].Kind()
			if res[i][b].Failed() {
				allOK = false
			} else {
				allFail = false
			}
		}
		pat := func() string {
			var p []string
			for i := range impls {
				p = append(p, impls[i]+"="+kinds[i])
			}
			return strings.Join(p, ",")
		}
		or := d.Oracle(b)
		switch or {
		case oReject:
			if allFail {
				classes["mismatch:all-reject"] = true
			} else {
				classes["mismatch:accepted"] = true
				add(b, "j2t|kind-mismatch:"+d.mm()+"|accepted-by:"+accepting(impls, res, b), fmt.Sprintf("document whose value kind contradicts the descriptor is not rejected by every implementation: %s\n first accepting output: %s", pat(), firstOut(res, b)))
			}
		case oDiff, oObserve:
			pre := "conf"
			if or == oObserve {
				pre = "observe"
			}
			switch {
			case allFail:
				classes[pre+":all-fail"] = true
			case allOK:
				same := true
				for i := 1; i < len(impls); i++ {
					if !bytes.Equal(res[i][b].Out, res[0][b].Out) {
						same = false
					}
				}
				if same {
					cl := pre + ":agree"
					if d.Ref != nil {
						if ref := d.Ref(b); ref != nil {
							if bytes.Equal(ref, res[0][b].Out) {
								cl += "=ref"
							} else {
								cl += "!=ref"
							}
						}
					}
					classes[cl] = true
				} else {
					classes[pre+":bytes-differ"] = true
					if or == oDiff {
						// which side differs: flavours among themselves, or native vs portable
						natSame := true
						for i := 1; i < len(fl); i++ {
							if !bytes.Equal(res[i][b].Out, res[0][b].Out) {
								natSame = false
							}
						}
						what := "native!=portable"
						if !natSame {
							what = "flavours-differ"
						}
						var sb strings.Builder
						for i := range impls {
							fmt.Fprintf(&sb, "\n  %-8s %s", impls[i], hexs(res[i][b].Out))
						}
						add(b, "j2t|"+d.trig()+"|bytes-differ:"+what, "conforming document converts to different bytes:"+sb.String())
					}
				}
			default:
				classes[pre+":fail-vs-ok"] = true
				if or == oDiff {
					var sb strings.Builder
					for i := range impls {
						o := res[i][b]
						fmt.Fprintf(&sb, "\n  %-8s %s out=%s err=%s %s", impls[i], kinds[i], hexs(o.Out), clip(o.Err, 160), clip(o.Panic, 160))
					}
					add(b, "j2t|"+d.trig()+"|outcome-differs:"+pat(), "conforming document is converted by some implementations and rejected by others:"+sb.String())
				}
			}
			// a recovered panic inside a converter on a conforming document
			if or == oDiff {
				for i := range impls {
					if res[i][b].Panic != "" {
						add(b, "j2t|"+d.trig()+"|panic@"+res[i][b].Site+":"+core.PanicClass(res[i][b].Panic), fmt.Sprintf("%s panics: %s", impls[i], clip(res[i][b].Panic, 300)))
					}
				}
			}
		}
	}
	var cl []string
	for c := range classes {
		cl = append(cl, c)
	}
	sort.Strings(cl)
	r.Class = strings.Join(cl, "+")
	for _, v := range vios {
		var os []string
		for _, b := range v.bits {
			os = append(os, OptString(b))
		}
		r.Add(v.sig, "%s\n under %d option set(s), first: %s; all: %s\n json: %s", v.detail, len(v.bits), os[0], clip(strings.Join(os, " "), 400), clip(d.Doc, 300))
	}
	return r
}

func (d *j2tDoc) trig() string {
	if d.Trig != "" {
		return d.Trig
	}
	return d.Fam
}
func (d *j2tDoc) mm() string {
	if d.MM != "" {
		return d.MM
	}
	return d.Fam
}

func accepting(impls []string, res [][]Outcome, b int) string {
	var a []string
	for i := range impls {
		if !res[i][b].Failed() {
			a = append(a, impls[i])
		}
	}
	return strings.Join(a, "+")
}

// docFeatures: the escape features that actually occur in a document (signature trigger classes).
func docFeatures(doc string) []string {
	var f []string
	if strings.Contains(doc, `\/`) {
		f = append(f, "esc-solidus")
	}
	sur, uesc := false, false
	for i := 0; i+5 < len(doc); i++ {
		if doc[i] == '\\' && doc[i+1] == 'u' {
			if (doc[i+2] == 'd' || doc[i+2] == 'D') && strings.IndexByte("89abAB", doc[i+3]) >= 0 {
				sur = true
			} else {
				uesc = true
			}
		}
	}
	if sur {
		f = append(f, "esc-surrogate-pair")
	}
	if uesc {
		f = append(f, "esc-uXXXX")
	}
	for _, e := range []string{`\b`, `\f`, `\n`, `\r`, `\t`, `\"`, `\\`} {
		if strings.Contains(doc, e) {
			f = append(f, "esc-short")
			break
		}
	}
	return f
}

func trigOf(base string, doc string, u Used, extra ...string) string {
	f := docFeatures(doc)
	if u.QuotedNum {
		f = append(f, "quoted-number")
	}
	if u.RawBin {
		f = append(f, "raw-binary")
	}
	if u.B64 {
		f = append(f, "base64")
	}
	for _, e := range extra {
		if e != "" {
			f = append(f, e)
		}
	}
	if len(f) == 0 {
		return base + "/plain"
	}
	return base + "/" + strings.Join(f, ",")
}

func firstOut(res [][]Outcome, b int) string {
	for i := range res {
		if !res[i][b].Failed() {
			return hexs(res[i][b].Out)
		}
	}
	return ""
}

// ---------- scope ----------

var wsForms = []struct{ name, ws string }{{"none", ""}, {"sp", " "}, {"mix", "\t\n\r "}}

func spellName(sp Spelling, ws string) string {
	var p []string
	p = append(p, "ws="+ws)
	if sp.Str != 0 {
		p = append(p, []string{"", "esc=uXXXX", "esc=short"}[sp.Str])
	}
	if sp.IntAsStr {
		p = append(p, "num-as-string")
	}
	if sp.RawBin {
		p = append(p, "raw-binary")
	}
	if sp.Dbl != 0 {
		p = append(p, []string{"", "dbl=e", "dbl=E", "dbl=f"}[sp.Dbl])
	}
	return strings.Join(p, ",")
}

// usedOracle: a document is conforming under exactly the option sets that make its quoted numbers
// / raw binaries legal; a quoted number without String2Int64 is a kind mismatch (JSON string for a
// numeric type); raw text handed to the base64 decoder is outside the domain.
func usedOracle(u Used) func(bits int) int {
	return func(bits int) int {
		if u.QuotedNum && bits&OString2Int64 == 0 {
			return oReject
		}
		if u.RawBin && bits&ONoBase64Binary == 0 {
			return oObserve
		}
		return oDiff
	}
}

// numTokenClass: value classes of a number token that known root causes depend on.
func numTokenClass(t string) string {
	t = strings.Trim(t, `"`)
	neg := strings.HasPrefix(t, "-")
	u := strings.TrimPrefix(t, "-")
	digits := true
	for _, c := range u {
		if c < '0' || c > '9' {
			digits = false
		}
	}
	if f, err := strconv.ParseFloat(t, 64); err == nil && f == 0 && neg {
		return "neg-zero"
	}
	if digits && len(u) >= 19 {
		if _, err := strconv.ParseInt(t, 10, 64); err != nil {
			return "integer-syntax-beyond-int64"
		}
	}
	return ""
}

func typeClass(s *tbin.Shape) string {
	switch s.T {
	case tbin.STRING:
		if s.Binary {
			return "binary"
		}
		return "string"
	case tbin.LIST, tbin.SET:
		return s.T.String() + "<" + typeClass(s.Elem) + ">"
	case tbin.MAP:
		return "map<" + typeClass(s.Key) + "," + typeClass(s.Elem) + ">"
	case tbin.STRUCT:
		return "struct"
	}
	return s.T.String()
}

// rootDoc wraps shape s as struct Root{1: s f1}; the document is {"f1": <value>}.
func rootIDL(s *tbin.Shape) string { return tbin.IDL(s, true) }

func refRoot(v *tbin.Val, s *tbin.Shape, sp Spelling) func(bits int) []byte {
	bin := hasKind(s, isBin)
	return func(bits int) []byte {
		if bin && (bits&ONoBase64Binary != 0 || sp.RawBin) {
			return nil
		}
		return tbin.Bytes(tbin.Struct(tbin.F(1, v)))
	}
}

func wrapToks(toks []string) []string {
	return append(append([]string{"{", `"f1"`, ":"}, toks...), "}")
}

// ---- family 1: scalar boundary values x spellings ----

type scalarFam struct {
	name  string
	shape *tbin.Shape
}

func scalarFams() []scalarFam {
	var out []scalarFam
	for _, s := range tbin.Scalars() {
		out = append(out, scalarFam{typeClass(s), s})
	}
	return out
}

func intBoundary(t tbin.Type) []int64 {
	var bitsN uint
	switch t {
	case tbin.BYTE:
		bitsN = 8
	case tbin.I16:
		bitsN = 16
	case tbin.I32:
		bitsN = 32
	default:
		bitsN = 64
	}
	min := -(int64(1) << (bitsN - 1))
	max := int64(1)<<(bitsN-1) - 1
	cand := []int64{0, 1, -1, 2, 9, 10, 99, 100, 127, 128, -128, -129, 255, 256, 32767, 32768, -32768, -32769, 65535, 65536,
		1<<31 - 1, 1 << 31, -(1 << 31), -(1 << 31) - 1, 1<<32 - 1, 1 << 32, 1<<53 - 1, 1 << 53, 1<<53 + 1, -(1 << 53) - 1,
		999999999999999999, 1000000000000000000, math.MaxInt64 - 1, math.MaxInt64, math.MinInt64 + 1, math.MinInt64}
	var out []int64
	seen := map[int64]bool{}
	for _, c := range cand {
		if c >= min && c <= max && !seen[c] {
			seen[c] = true
			out = append(out, c)
		}
	}
	return out
}

func dblBoundary() []float64 {
	return []float64{0, math.Copysign(0, -1), 1, -1, -1.5, 0.1, 0.5, 2, 10, 100, 123456789, 1e15, 1e16, 1e20, 1e21, 1e22, 1e23, 1e-5, 1e-6, 1e-7,
		5e-324, 2.2250738585072014e-308, 2.225073858507201e-308, math.MaxFloat64, -math.MaxFloat64, 9007199254740991, 9007199254740992, 9007199254740993,
		0.3, 1.0 / 3, 123.456, 4.35, 2.5e-8, 1.7976931348623157e308, 8.41e21, 5e-320,
		// whole numbers whose plain spelling has 19 / 20 digits and lies beyond int64 / uint64
		9223372036854775808, 9.5e18, -9.5e18, -9223372036854777856, 1e19, 18446744073709551616}
}

func strBoundary() []string {
	out := []string{"", "a", "\u00e9", "\"\\\n", "\u2028", "\u2029", "/", "a/b", "\b\f\n\r\t", "\x01\x1f", "\x7f", "\U0001F600", "a\U0001F600b", "\ufffd", "\u65e5\u672c\u8a9e", "\u0080\u0100\uffff", "\\u0041", "%s%d", "null", "true", "123"}
	for _, n := range []int{15, 16, 17, 31, 32, 33, 63, 64, 65, 4095, 4096, 4097} {
		out = append(out, strings.Repeat("x", n))
		// an escape-needing char as the last byte and right at a lane boundary
		out = append(out, strings.Repeat("y", n-1)+"\"")
		if n > 16 {
			out = append(out, strings.Repeat("z", 15)+"\\"+strings.Repeat("z", n-16))
		}
		out = append(out, strings.Repeat("\u00e9", n/2)+"\n")
	}
	return out
}

func binBoundary() [][]byte {
	var out [][]byte
	for _, n := range []int{0, 1, 2, 3, 4, 5, 15, 16, 17, 31, 32, 33, 47, 48, 49, 4095, 4096, 4097} {
		b := make([]byte, n)
		for i := range b {
			b[i] = byte(i*37 + 251)
		}
		out = append(out, b)
	}
	out = append(out, []byte{0xfb, 0xff, 0xfe}, []byte{0xff, 0xff, 0xff}, []byte("raw text"), []byte("abcd"), []byte("é\n\"x"))
	return out
}

func enumScalars(tier string, fam scalarFam, yield func(core.Case) bool) {
	s := fam.shape
	idl := rootIDL(s)
	emit := func(v *tbin.Val, sp Spelling, variant string, toks []string) bool {
		var u Used
		if toks == nil {
			var ok bool
			toks, u, ok = TokensU(v, s, sp)
			if !ok {
				return true
			}
		}
		vclass := ""
		if s.T == tbin.DOUBLE && len(toks) == 1 {
			vclass = numTokenClass(toks[0])
		}
		orc := usedOracle(u)
		for _, w := range wsForms {
			if w.name == "mix" && (sp.Str != 0 || sp.Dbl != 0) {
				continue
			}
			// the descriptor is Root{1: T f1} and, separately, T itself as the top-level descriptor
			for _, inner := range []bool{false, true} {
				tk := toks
				if !inner {
					tk = wrapToks(toks)
				}
				pos := "field"
				if inner {
					pos = "top"
				}
				var ref func(int) []byte
				if !inner {
					ref = refRoot(v, s, sp)
				}
				doc := Join(tk, w.ws)
				d := &j2tDoc{Fam: "scalar:" + fam.name + "@" + pos + "/" + spellName(sp, w.name) + variant, IDL: idl, Inner: inner, Doc: doc, Oracle: orc, Ref: ref,
					Trig: trigOf("scalar:"+fam.name, doc, u, vclass), MM: "json-string->thrift-number@" + pos}
				if !yield(d.Case()) {
					return false
				}
			}
		}
		return true
	}
	switch s.T {
	case tbin.BOOL:
		for _, b := range []bool{false, true} {
			if !emit(tbin.Bool(b), Spelling{}, "", nil) {
				return
			}
		}
	case tbin.BYTE, tbin.I16, tbin.I32, tbin.I64:
		for _, x := range intBoundary(s.T) {
			v := &tbin.Val{T: s.T, I: x}
			if !emit(v, Spelling{}, "", nil) || !emit(v, Spelling{IntAsStr: true}, "", nil) {
				return
			}
			if x == 0 {
				if !emit(v, Spelling{}, ",neg-zero", []string{"-0"}) {
					return
				}
			}
		}
	case tbin.DOUBLE:
		for _, x := range dblBoundary() {
			v := tbin.Double(x)
			for dm := 0; dm < 4; dm++ {
				if dm == 3 && (math.Abs(x) > 1e22 || (x != 0 && math.Abs(x) < 1e-7)) {
					// plain decimal of extreme exponents: hundreds of digits; covered once below
					if x != math.MaxFloat64 && x != 5e-324 {
						continue
					}
				}
				if !emit(v, Spelling{Dbl: dm}, "", nil) {
					return
				}
			}
			if !emit(v, Spelling{IntAsStr: true}, "", nil) {
				return
			}
			if x == math.Trunc(x) && math.Abs(x) < 1e15 {
				i := int64(x)
				neg := math.Signbit(x)
				is := fmt.Sprint(i)
				if neg && i == 0 {
					is = "-0"
				}
				// integer-valued doubles in every number form of the DESIGN alphabet: 1, 1.0, 1e0, 10E-1
				tenth := is + "0E-1"
				if i == 0 {
					tenth = is + "E-1"
				}
				for k, form := range []string{is, is + ".0", is + "e0", tenth, is + ".000", is + "E+0"} {
					if !emit(v, Spelling{}, fmt.Sprintf(",int-form%d", k), []string{form}) {
						return
					}
				}
			}
		}
		// long literals: the exact decimal expansion of doubles and of the midpoints between adjacent doubles
		// (up to 770 significant digits), the midpoint with one more digit (just above the tie) and cut by one
		// digit (just below): correct rounding needs every digit (reference: strconv.ParseFloat)
		for _, lit := range longLiterals() {
			x, err := strconv.ParseFloat(lit.text, 64)
			if err != nil {
				panic("harness: " + err.Error())
			}
			if !emit(tbin.Double(x), Spelling{}, ",long-literal:"+lit.kind, []string{lit.text}) {
				return
			}
		}
	case tbin.STRING:
		if s.Binary {
			for _, b := range binBoundary() {
				v := tbin.Bin(b)
				for sm := 0; sm < 3; sm++ {
					if !emit(v, Spelling{Str: sm}, "", nil) {
						return
					}
				}
				if !emit(v, Spelling{RawBin: true}, "", nil) {
					return
				}
			}
			return
		}
		for _, x := range strBoundary() {
			v := tbin.Str(x)
			for sm := 0; sm < 3; sm++ {
				if sm == 1 && len(x) > 100 && tier == "quick" {
					continue
				}
				if !emit(v, Spelling{Str: sm}, "", nil) {
					return
				}
			}
		}
	}
}

// boundaryVals: the whole boundary alphabet of a scalar shape as model values (JSON-denotable ones).
func boundaryVals(s *tbin.Shape) []*tbin.Val {
	var out []*tbin.Val
	switch s.T {
	case tbin.BOOL:
		out = append(out, tbin.Bool(false), tbin.Bool(true))
	case tbin.BYTE, tbin.I16, tbin.I32, tbin.I64:
		for _, x := range intBoundary(s.T) {
			out = append(out, &tbin.Val{T: s.T, I: x})
		}
	case tbin.DOUBLE:
		for _, x := range dblBoundary() {
			out = append(out, tbin.Double(x))
		}
	case tbin.STRING:
		if s.Binary {
			for _, b := range binBoundary() {
				if len(b) < 100 {
					out = append(out, tbin.Bin(b))
				}
			}
		} else {
			for _, x := range strBoundary() {
				if len(x) < 100 {
					out = append(out, tbin.Str(x))
				}
			}
		}
	}
	return out
}

// enumScalarContainers: every boundary value of the scalar, one per document, as the element of a
// list / set, as a map value, and (strings / integers) as a map key, in each spelling.
func enumScalarContainers(tier string, fam scalarFam, yield func(core.Case) bool) {
	s := fam.shape
	keyable := (s.T == tbin.STRING && !s.Binary) || s.T == tbin.BYTE || s.T == tbin.I16 || s.T == tbin.I32 || s.T == tbin.I64
	spells := []Spelling{{}, {Str: 1}, {Str: 2}, {IntAsStr: true}, {RawBin: true}, {Dbl: 1}, {Dbl: 3}}
	for _, v := range boundaryVals(s) {
		type cont struct {
			name  string
			shape *tbin.Shape
			val   *tbin.Val
		}
		cs := []cont{
			{"list", tbin.ListS(s), &tbin.Val{T: tbin.LIST, ET: s.T, L: []*tbin.Val{v, v}}},
			{"set", tbin.SetS(s), &tbin.Val{T: tbin.SET, ET: s.T, L: []*tbin.Val{v}}},
			{"map-value", tbin.MapS(tbin.Sc(tbin.STRING), s), &tbin.Val{T: tbin.MAP, KT: tbin.STRING, ET: s.T, K: []*tbin.Val{tbin.Str("k")}, L: []*tbin.Val{v}}},
		}
		if keyable {
			cs = append(cs, cont{"map-key", tbin.MapS(s, tbin.Sc(tbin.I32)), &tbin.Val{T: tbin.MAP, KT: s.T, ET: tbin.I32, K: []*tbin.Val{v}, L: []*tbin.Val{tbin.I32v(7)}}})
		}
		if keyable && s.T != tbin.STRING {
			// an integer key spelled with JSON escapes: all characters, the last one only, the first digit only
			dec := strconv.FormatInt(v.I, 10)
			esc := func(i int) string { return fmt.Sprintf("\\u%04x", dec[i]) }
			all := ""
			for i := range dec {
				all += esc(i)
			}
			fd := 0
			if dec[0] == '-' {
				fd = 1
			}
			kshape := tbin.MapS(s, tbin.Sc(tbin.I32))
			kval := &tbin.Val{T: tbin.MAP, KT: s.T, ET: tbin.I32, K: []*tbin.Val{v}, L: []*tbin.Val{tbin.I32v(7)}}
			for _, key := range []string{all, dec[:len(dec)-1] + esc(len(dec)-1), dec[:fd] + esc(fd) + dec[fd+1:]} {
				doc := `{"f1":{"` + key + `":7}}`
				d := &j2tDoc{Fam: "scalar-in-map-key:" + fam.name + "/escaped-digits", IDL: rootIDL(kshape), Doc: doc, Oracle: func(int) int { return oDiff }, Ref: refRoot(kval, kshape, Spelling{}),
					Trig: "scalar:" + fam.name + ",map-key-with-escaped-digits", MM: "json-string->thrift-number@map-key"}
				if !yield(d.Case()) {
					return
				}
			}
		}
		for _, c := range cs {
			idl := rootIDL(c.shape)
			for _, sp := range spells {
				if sp.IntAsStr && !isNum(s) || sp.RawBin && !isBin(s) || sp.Dbl != 0 && s.T != tbin.DOUBLE || sp.Str != 0 && s.T != tbin.STRING {
					continue
				}
				if sp.Dbl == 3 && v.T == tbin.DOUBLE && !(v.F == 0 || (math.Abs(v.F) < 1e22 && math.Abs(v.F) > 1e-7)) {
					continue
				}
				if c.name == "map-key" && (sp.IntAsStr || sp.RawBin) {
					continue
				}
				toks, u, ok := TokensU(c.val, c.shape, sp)
				if !ok {
					continue
				}
				vclass := ""
				if s.T == tbin.DOUBLE {
					vt, _ := Tokens(v, s, sp)
					vclass = numTokenClass(vt[0])
				}
				doc := Join(wrapToks(toks), "")
				d := &j2tDoc{Fam: "scalar-in-" + c.name + ":" + fam.name + "/" + spellName(sp, "none"), IDL: idl, Doc: doc, Oracle: usedOracle(u), Ref: refRoot(c.val, c.shape, sp),
					Trig: trigOf("scalar:"+fam.name, doc, u, vclass), MM: "json-string->thrift-number@" + c.name}
				if !yield(d.Case()) {
					return
				}
			}
		}
	}
}

// ---- family: nesting depth (recursive struct) ----

const depthIDL = "namespace go verif\nstruct N {\n  1: optional N n\n  2: i32 v\n  3: list<N> l\n}\nservice Svc {\n  N M(1: N req)\n}\n"

func enumDepth(tier string, yield func(core.Case) bool) {
	depths := []int{1, 2, 3, 8, 64, 512, 1000}
	for _, base := range []int{1024, 1365, 2048, 4096} {
		for d := base - 4; d <= base+4; d++ {
			depths = append(depths, d)
		}
	}
	for _, d := range depths {
		for _, kind := range []string{"struct", "list"} {
			var sb strings.Builder
			for i := 0; i < d; i++ {
				if kind == "struct" {
					sb.WriteString(`{"n":`)
				} else {
					sb.WriteString(`{"l":[`)
				}
			}
			sb.WriteString(`{"v":7}`)
			for i := 0; i < d; i++ {
				if kind == "struct" {
					sb.WriteString(`}`)
				} else {
					sb.WriteString(`]}`)
				}
			}
			d := d
			doc := &j2tDoc{Fam: fmt.Sprintf("depth:%s/%d", kind, d), Trig: "depth:" + kind, IDL: depthIDL, Doc: sb.String(),
				// the native converter has a fixed parser stack (MAX_RECURSE 4096 entries); the statement's domain
				// is "nesting up to the depth limit": documents up to 1000 levels are demanded, deeper ones observed
				Oracle: func(int) int {
					if d <= 1000 {
						return oDiff
					}
					return oObserve
				}}
			if !yield(doc.Case()) {
				return
			}
		}
	}
}

// ---- family 2: container / struct shapes ----

// conformingShapes: shapes whose every value has a JSON form (map keys string or integer).
func conformingShapes(tier string) []*tbin.Shape {
	var all []*tbin.Shape
	all = append(all, tbin.T1()...)
	all = append(all, tbin.T2()...)
	if tier == "thorough" {
		t3 := tbin.T3Small()
		for i := 0; i < len(t3); i += 2 {
			all = append(all, t3[i])
		}
	}
	var out []*tbin.Shape
	for _, s := range all {
		bad := hasKind(s, func(x *tbin.Shape) bool {
			return x.T == tbin.MAP && (x.Key.T == tbin.DOUBLE || x.Key.T == tbin.STRUCT || x.Key.T == tbin.BOOL || x.Key.Binary)
		})
		if !bad {
			out = append(out, s)
		}
	}
	return out
}

func depthClass(s *tbin.Shape) string { return fmt.Sprintf("depth%d:%s", s.Depth(), s.T) }

func perms(n int) [][]int {
	if n == 1 {
		return [][]int{{0}}
	}
	var out [][]int
	for _, p := range perms(n - 1) {
		for i := 0; i <= len(p); i++ {
			q := append(append(append([]int{}, p[:i]...), n-1), p[i:]...)
			out = append(out, q)
		}
	}
	return out
}

func enumShape(tier string, s *tbin.Shape, yield func(core.Case) bool) bool {
	idl := rootIDL(s)
	cls := depthClass(s)
	spells := []Spelling{{}, {Str: 1}, {Str: 2}, {IntAsStr: true}, {RawBin: true}}
	for n := 0; n <= 3; n++ {
		g := &tbin.Gen{}
		v := g.Build(s, n)
		for si, sp := range spells {
			if sp.IntAsStr && !hasKind(s, isNum) || sp.RawBin && !hasKind(s, isBin) {
				continue
			}
			if sp.Str != 0 && !hasKind(s, func(x *tbin.Shape) bool { return x.T == tbin.STRING || x.T == tbin.STRUCT }) {
				continue
			}
			toks, u, ok := TokensU(v, s, sp)
			if !ok {
				continue
			}
			for _, w := range wsForms {
				if si != 0 && w.name != "none" {
					continue
				}
				doc := Join(wrapToks(toks), w.ws)
				d := &j2tDoc{Fam: "shape:" + cls + "/" + spellName(sp, w.name), IDL: idl, Doc: doc, Oracle: usedOracle(u), Ref: refRoot(v, s, sp),
					Trig: trigOf("shape", doc, u), MM: "json-string->thrift-number@nested"}
				if !yield(d.Case()) {
					return false
				}
			}
		}
		if n != 2 {
			continue
		}
		toks, ok := Tokens(v, s, Spelling{})
		if !ok {
			continue
		}
		val := strings.Join(toks, "")
		// object-level variants on the wrapper: null member, unknown members (scalar / object / array,
		// before and after), repeated whitespace
		unk := func(bits int) int { return oDiff }
		variants := []struct{ name, trig, doc string }{
			{"null-member", "requiredness/null-default-field", `{"f1":null}`},
			{"null-unknown", "shape/unknown-member", `{"zz":null,"f1":` + val + `}`},
			{"unknown-scalar-before", "shape/unknown-member", `{"zz":1,"f1":` + val + `}`},
			{"unknown-string-after", "shape/unknown-member", `{"f1":` + val + `,"zz":"q\"}"}`},
			{"unknown-object-before", "shape/unknown-member", `{"zz":{"a":[1,{"b":null}],"c":"}"},"f1":` + val + `}`},
			{"unknown-array-after", "shape/unknown-member", `{"f1":` + val + `,"zz":[1,"x",[],{}]}`},
			{"unknown-bool-before", "shape/unknown-member", `{"zz":true,"f1":` + val + `}`},
			// strings inside skipped containers that end in runs of backslashes (even runs close the string, odd
			// runs escape the quote) and that contain brackets
			{"unknown-object-backslashes-before", "shape/unknown-member", `{"zz":{"dir":"C:\\","p":"a\\\\","q":"x\\\"}","r":["\\",{"s":"]\\"}]},"f1":` + val + `}`},
			{"unknown-array-backslashes-after", "shape/unknown-member", `{"f1":` + val + `,"zz":["\\","\\\\","\\\"]","{\\"]}`},
				// skipped numbers in every spelling of the JSON grammar (fraction, exponent with and without sign, both cases)
			{"unknown-numbers-before", "shape/unknown-member", `{"zz":1e+5,"zy":-1.25E-7,"zx":6E+2,"zw":0.5,"zv":-0,"zu":1e5,"zt":2E0,"f1":` + val + `}`},
			{"unknown-numbers-in-array-after", "shape/unknown-member", `{"f1":` + val + `,"zz":[1e+5,-1.25E-7,6E+2,0.5,-0,1e5,2E0,10e-1]}`},
			{"unknown-number-last", "shape/unknown-member", `{"f1":` + val + `,"zz":3E-2}`},
		}
		for _, vr := range variants {
			d := &j2tDoc{Fam: "shape:" + cls + "/" + vr.name, Trig: vr.trig, IDL: idl, Doc: vr.doc, Oracle: unk}
			if !yield(d.Case()) {
				return false
			}
		}
		// member order: a 3-field struct as the top-level descriptor, every permutation of its members
		if s.T == tbin.STRUCT && len(s.Fields) == 3 && len(v.Fs) == 3 {
			sidl := tbin.IDL(s, false)
			for _, p := range perms(3) {
				pv := &tbin.Val{T: tbin.STRUCT}
				for _, i := range p {
					pv.Fs = append(pv.Fs, v.Fs[i])
				}
				ptoks, ok := Tokens(pv, s, Spelling{})
				if !ok {
					continue
				}
				pvc := pv
				d := &j2tDoc{Fam: "shape:" + cls + "/member-order", Trig: "shape/member-order", IDL: sidl, Doc: strings.Join(ptoks, ""), Oracle: unk,
					Ref: func(bits int) []byte {
						if hasKind(s, isBin) && bits&ONoBase64Binary != 0 {
							return nil
						}
						return tbin.Bytes(pvc)
					}}
				if !yield(d.Case()) {
					return false
				}
			}
		}
	}
	return true
}

// ---- family 3: requiredness x presence (so that WriteDefaultField / WriteRequireField matter) ----

func reqShapes() []*tbin.Shape {
	rq := func(id int16, s *tbin.Shape, r int) tbin.SField { return tbin.SField{ID: id, S: s, Req: r} }
	return []*tbin.Shape{
		tbin.StructS(rq(1, tbin.Sc(tbin.I32), 1), rq(2, tbin.Sc(tbin.STRING), 2), rq(3, tbin.Sc(tbin.I64), 0)),
		tbin.StructS(rq(1, tbin.Sc(tbin.STRING), 1), rq(2, tbin.ListS(tbin.Sc(tbin.I32)), 0), rq(3, tbin.Sc(tbin.DOUBLE), 2), rq(4, tbin.StructS(rq(1, tbin.Sc(tbin.I32), 1)), 1)),
		tbin.StructS(rq(1, tbin.StructS(rq(1, tbin.Sc(tbin.I32), 1), rq(2, tbin.Sc(tbin.BOOL), 0)), 0), rq(2, tbin.MapS(tbin.Sc(tbin.STRING), tbin.Sc(tbin.I32)), 1), rq(255, tbin.Sc(tbin.BYTE), 0)),
		tbin.StructS(rq(1, tbin.BinS(), 1), rq(2, tbin.SetS(tbin.Sc(tbin.STRING)), 1), rq(300, tbin.Sc(tbin.I16), 0), rq(4, tbin.Sc(tbin.BOOL), 1)),
		tbin.StructS(rq(1, tbin.MapS(tbin.Sc(tbin.I64), tbin.Sc(tbin.DOUBLE)), 0), rq(2, tbin.ListS(tbin.StructS(rq(1, tbin.Sc(tbin.STRING), 1), rq(2, tbin.Sc(tbin.I32), 0))), 0)),
	}
}

// nestedTrig labels the hand-written nested presence documents (in both nested structs field f1 is required).
func nestedTrig(doc string) string {
	switch {
	case strings.Contains(doc, `"f1":null`):
		return "requiredness/nested,null-required-field"
	case strings.Contains(doc, `null`):
		return "requiredness/nested,null-default-field-or-map-value"
	}
	return "requiredness/nested,no-null-member"
}

// enumAliasKeys: JSON keys declared through api.key that contain bytes below '.' (the Go name tables and their
// native twins map such bytes to table slots separately), chosen so that the byte sits at the position the trie
// indexes; every member alone and all together, with and without an unknown sibling.
func enumAliasKeys(yield func(core.Case) bool) {
	fams := [][]string{{"user-id", "item_id"}, {"$ref", "href"}, {"a+b", "a_b", "a b"}, {"x-1", "x.1", "x/1", "x#1", "x&1"}, {"-", "."}, {"k!", "k~", "k-"}}
	for fi, keys := range fams {
		var body []string
		for i, k := range keys {
			body = append(body, fmt.Sprintf("  %d: i32 f%d (api.key = %q)", i+1, i+1, k))
		}
		idl := "namespace go verif\nstruct S0 {\n" + strings.Join(body, "\n") + "\n}\nstruct Root {\n  1: S0 f1\n}\nservice Svc {\n  Root M(1: Root req)\n}\n"
		var docs []string
		all := ""
		for i, k := range keys {
			m := fmt.Sprintf("%q:%d", k, 10+i)
			docs = append(docs, "{"+m+"}", `{"zz":0,`+m+"}")
			if all != "" {
				all += ","
			}
			all += m
		}
		docs = append(docs, "{"+all+"}")
		for _, d := range docs {
			doc := `{"f1":` + d + `}`
			jd := &j2tDoc{Fam: fmt.Sprintf("alias-keys-with-low-bytes/%d", fi), Trig: "keys/alias-with-a-byte-below-'.'", IDL: idl, Doc: doc, Oracle: func(int) int { return oDiff }}
			if !yield(jd.Case()) {
				return
			}
		}
	}
}

// enumJSConv: api.js_conv fields under EnableValueMapping (the native converter handles them inline, the portable one
// through thrift/annotation): integers on both sides of 2^53 and at the i64 limits, quoted and bare.
func enumJSConv(yield func(core.Case) bool) {
	idl := "namespace go verif\nstruct S0 {\n  1: i64 id (api.js_conv = \"true\")\n  2: i32 n (api.js_conv = \"true\")\n  3: string tail\n}\nstruct Root {\n  1: S0 f1\n}\nservice Svc {\n  Root M(1: Root req)\n}\n"
	for _, v := range []string{"12", "-12", "9007199254740992", "9007199254740993", "-9007199254740993", "7234567890123456789", "9223372036854775807", "-9223372036854775808"} {
		for _, q := range []bool{true, false} {
			lit := v
			if q {
				lit = `"` + v + `"`
			}
			for _, doc := range []string{`{"f1":{"id":` + lit + `}}`, `{"f1":{"id":` + lit + `,"n":"7","tail":"t"}}`} {
				jd := &j2tDoc{Fam: "js_conv-integers", Trig: "value-mapping/js_conv-i64", IDL: idl, Doc: doc, Oracle: func(int) int { return oDiff }, OrBits: OEnableValueMapping}
				if !yield(jd.Case()) {
					return
				}
			}
		}
	}
}

func enumReq(tier string, yield func(core.Case) bool) {
	for si, s := range reqShapes() {
		idl := tbin.IDL(s, false)
		g := &tbin.Gen{}
		v := g.Build(s, 2)
		k := len(s.Fields)
		n := 1
		for i := 0; i < k; i++ {
			n *= 3
		}
		for m := 0; m < n; m++ {
			// presence of field i: 0 absent, 1 null, 2 present
			var parts []string
			x := m
			nullReq := [3]bool{}
			for i := 0; i < k; i++ {
				st := x % 3
				x /= 3
				name := JSONString(s.Fields[i].FName(), 0)
				switch st {
				case 1:
					nullReq[s.Fields[i].Req] = true
					parts = append(parts, name+":null")
				case 2:
					toks, _ := Tokens(v.Fs[i].V, s.Fields[i].S, Spelling{})
					parts = append(parts, name+":"+strings.Join(toks, ""))
				}
			}
			trig := "requiredness/no-null-member"
			switch {
			case nullReq[1]:
				trig = "requiredness/null-required-field"
			case nullReq[0]:
				trig = "requiredness/null-default-field"
			case nullReq[2]:
				trig = "requiredness/null-optional-field"
			}
			d := &j2tDoc{Fam: fmt.Sprintf("requiredness:struct%d", si), Trig: trig, IDL: idl, Doc: "{" + strings.Join(parts, ",") + "}", Oracle: func(int) int { return oDiff }}
			if !yield(d.Case()) {
				return
			}
		}
		// nested presence: inner required field absent / null inside list element and struct field
		if si == 2 {
			for _, doc := range []string{`{"f1":{},"f2":{}}`, `{"f1":{"f2":true},"f2":{"a":1}}`, `{"f1":{"f1":null},"f2":{}}`, `{"f1":{"f1":7},"f2":{"a":null}}`} {
				d := &j2tDoc{Fam: "requiredness:nested", Trig: nestedTrig(doc), IDL: idl, Doc: doc, Oracle: func(int) int { return oDiff }}
				if !yield(d.Case()) {
					return
				}
			}
		}
		if si == 4 {
			for _, doc := range []string{`{"f2":[{}]}`, `{"f2":[{"f2":1}]}`, `{"f2":[{"f1":"a"},{"f1":null}]}`, `{"f2":[{"f1":"a","f2":null}]}`, `{"f1":{"5":null}}`} {
				d := &j2tDoc{Fam: "requiredness:nested", Trig: nestedTrig(doc), IDL: idl, Doc: doc, Oracle: func(int) int { return oDiff }}
				if !yield(d.Case()) {
					return
				}
			}
		}
	}
}

// ---- family 4: kind-mismatch table (JSON kind x thrift type x position) ----

type mmType struct {
	name  string
	shape *tbin.Shape
}

func mismatchTypes() []mmType {
	var out []mmType
	for _, s := range tbin.Scalars() {
		out = append(out, mmType{typeClass(s), s})
	}
	out = append(out,
		mmType{"list", tbin.ListS(tbin.Sc(tbin.I32))},
		mmType{"set", tbin.SetS(tbin.Sc(tbin.STRING))},
		mmType{"map", tbin.MapS(tbin.Sc(tbin.STRING), tbin.Sc(tbin.I32))},
		mmType{"struct", tbin.StructS(tbin.SF(1, tbin.Sc(tbin.I32)))},
	)
	return out
}

var jsonKinds = []struct {
	kind string
	vals []string
}{
	{"bool", []string{"true", "false"}},
	{"number", []string{"0", "1", "-1", "1.5", "1e2"}},
	{"string", []string{`""`, `"a"`, `"1"`, `"true"`, `"[]"`}},
	{"array", []string{"[]", "[1]", `["a"]`, "[[]]"}},
	{"object", []string{"{}", `{"a":1}`, `{"1":1}`, `{"f1":1}`}},
}

// contradicts: does a JSON value of that kind contradict thrift type t under the option set?
// returns the oracle kind. Only kind-level contradictions are demanded; value-level questions
// (a fractional number for an integer, a non-numeric string under String2Int64) are observe-only.
func contradicts(kind, val string, t *tbin.Shape, bits int) int {
	num := isNum(t)
	switch kind {
	case "bool":
		if t.T == tbin.BOOL {
			return oDiff
		}
		return oReject
	case "number":
		if num {
			if t.T != tbin.DOUBLE && strings.ContainsAny(val, ".eE") {
				return oObserve
			}
			return oDiff
		}
		return oReject
	case "string":
		if t.T == tbin.STRING {
			if t.Binary && bits&ONoBase64Binary == 0 {
				return oObserve // arbitrary text handed to the base64 decoder
			}
			return oDiff
		}
		if num && bits&OString2Int64 != 0 {
			if val == `"1"` {
				return oDiff
			}
			return oObserve
		}
		return oReject
	case "array":
		if t.T == tbin.LIST || t.T == tbin.SET {
			if val == "[]" {
				return oDiff
			}
			return oObserve // element kinds are a separate row
		}
		return oReject
	case "object":
		if t.T == tbin.MAP || t.T == tbin.STRUCT {
			if val == "{}" {
				return oDiff
			}
			return oObserve
		}
		return oReject
	}
	return oObserve
}

func mmClass(t *tbin.Shape) string {
	switch {
	case t.T == tbin.BOOL:
		return "bool"
	case isNum(t):
		return "number"
	case t.T == tbin.STRING && t.Binary:
		return "binary"
	case t.T == tbin.STRING:
		return "string"
	}
	return "container"
}

func enumMismatch(tier string, mt mmType, yield func(core.Case) bool) {
	t := mt.shape
	positions := []struct {
		name  string
		shape *tbin.Shape
		wrap  func(x string) string
	}{
		{"field", t, func(x string) string { return `{"f1":` + x + `}` }},
		{"top", t, nil},
		{"list-elem", tbin.ListS(t), func(x string) string { return `{"f1":[` + x + `]}` }},
		{"map-value", tbin.MapS(tbin.Sc(tbin.STRING), t), func(x string) string { return `{"f1":{"k":` + x + `}}` }},
		{"struct-field-depth2", tbin.StructS(tbin.SF(1, tbin.Sc(tbin.I32)), tbin.SF(2, t)), func(x string) string { return `{"f1":{"f1":5,"f2":` + x + `}}` }},
	}
	for _, pos := range positions {
		idl := rootIDL(pos.shape)
		for _, jk := range jsonKinds {
			for _, val := range jk.vals {
				jk, val := jk, val
				doc := val
				inner := pos.wrap == nil
				if !inner {
					doc = pos.wrap(val)
				}
				if inner && t.T == tbin.STRING && jk.kind != "string" {
					// documented special case: a top-level STRING descriptor takes the whole unquoted input
					// as the string value, so no document "contradicts" it
					continue
				}
				d := &j2tDoc{Fam: "mismatch:json-" + jk.kind + "->thrift-" + mt.name + "@" + pos.name, IDL: idl, Inner: inner, Doc: doc,
					MM: "json-" + jk.kind + "->thrift-" + mmClass(t) + "@" + pos.name, Trig: "mismatch-table/conforming-cell:json-" + jk.kind + "->thrift-" + mmClass(t),
					Oracle: func(bits int) int { return contradicts(jk.kind, val, t, bits) }}
				if !yield(d.Case()) {
					return
				}
			}
		}
	}
}

type longLit struct{ kind, text string }

func exactDecimal(f *big.Float) string {
	t := f.Text('e', 1100)
	i := strings.IndexByte(t, 'e')
	m, e := strings.TrimRight(t[:i], "0"), t[i:]
	if strings.HasSuffix(m, ".") {
		m += "0"
	}
	return m + e
}

// longLiterals: for doubles spread over the exponent range (subnormal, smallest normal, 2^-500 .. 2^1023) x
// mantissas {0, 1, all-ones, alternating}: the exact value, the exact midpoint to the next double, the
// midpoint just above and just below.
func longLiterals() []longLit {
	var out []longLit
	for _, e := range []uint64{0, 1, 523, 923, 1013, 1023, 1033, 1075, 1123, 1523, 2046} {
		for _, m := range []uint64{0, 1, 1<<52 - 1, 0x5555555555555} {
			if e == 0 && m == 0 {
				continue
			}
			x := math.Float64frombits(e<<52 | m)
			y := math.Nextafter(x, math.Inf(1))
			if math.IsInf(y, 0) {
				continue
			}
			bx := new(big.Float).SetPrec(2400).SetFloat64(x)
			by := new(big.Float).SetPrec(2400).SetFloat64(y)
			mid := new(big.Float).SetPrec(2400).Add(bx, by)
			mid.Quo(mid, big.NewFloat(2))
			ms := exactDecimal(mid)
			i := strings.IndexByte(ms, 'e')
			out = append(out, longLit{"exact", exactDecimal(bx)}, longLit{"midpoint", ms},
				longLit{"midpoint-above", ms[:i] + "1" + ms[i:]}, longLit{"midpoint-below", ms[:i-1] + ms[i:]})
		}
	}
	return out
}
