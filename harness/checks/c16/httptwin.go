package c16

import (
	"bytes"
	"context"
	"fmt"

	"github.com/cloudwego/dynamicgo/conv"
	"github.com/cloudwego/dynamicgo/conv/t2j"
	"github.com/cloudwego/dynamicgo/thrift"

	"verif/checks/jt"
	"verif/engine/core"
	"verif/ref/tbin"
)

// The http twin of a t2j scenario: the same message, the same write options, but the string field f1 of the
// three-field struct carries `api.header = "X-F1"`, EnableHttpMapping is on and the context holds a response
// setter. The http mapping is one more option that "never alters or drops a field that is present": whatever the
// plain conversion puts into the member f1 (the present value, or the zero / default value the write options
// demand for an absent field) must arrive in the header X-F1 instead, the rest of the body and the verdict
// (error class) must be the same. Structs inside containers get no response setter: there the body is unchanged.

const hdrName = "X-F1"

type respRec struct {
	hdr    map[string][]string
	others []string
}

func (r *respRec) SetStatusCode(c int) error {
	r.others = append(r.others, fmt.Sprintf("status=%d", c))
	return nil
}
func (r *respRec) SetHeader(k, v string) error {
	if r.hdr == nil {
		r.hdr = map[string][]string{}
	}
	r.hdr[k] = append(r.hdr[k], v)
	return nil
}
func (r *respRec) SetCookie(k, v string) error {
	r.others = append(r.others, "cookie:"+k+"="+v)
	return nil
}
func (r *respRec) SetRawBody(b []byte) error {
	r.others = append(r.others, fmt.Sprintf("raw_body=%q", b))
	return nil
}

var hprogs = map[string]*jt.Prog{}

// hProg: the scenario's program with the annotation on f1 (index 1 of the three-field struct).
func (s *scen) hProg() *jt.Prog {
	root, name := s.p.root, s.p.name
	if s.nested != nil {
		root, name = s.nested.outerRoot, s.nested.outer.Name
	}
	if p := hprogs[name]; p != nil {
		return p
	}
	p := jt.NewProg(name+"-http", root)
	for i, f := range s.p.fields {
		x := jt.FX{}
		if f.hasDef {
			x.DefLit, x.Def = f.lit, f.def
		}
		if i == 1 {
			x.Ann = []string{`api.header = "` + hdrName + `"`}
		}
		p.Set(s.p.root, i, x)
	}
	if len(hprogs) > 64 {
		hprogs = map[string]*jt.Prog{}
	}
	hprogs[name] = p
	return p
}

func (s *scen) t2jMessage() []byte {
	if s.nested == nil {
		return tbin.Bytes(s.message())
	}
	v := tbin.Struct()
	if s.nested.outerState == 2 {
		v.Fs = append(v.Fs, tbin.F(outerID, wrapVal2(s.fullMessage(), s.message(), s.nested.wrap)))
	}
	v.Fs = append(v.Fs, tbin.F(tailID, tbin.I32v(42)))
	return tbin.Bytes(v)
}

func (s *scen) httpTwin(r *core.Result) {
	if s.side != "t2j" || len(r.Viol) > 0 || s.p.fields[1].shape.T != tbin.STRING {
		return
	}
	plainProg := s.p.prog
	if s.nested != nil {
		plainProg = s.nested.outer
	}
	_, dPlain, err := plainProg.DescsN(s.po, 0)
	_, dH, err2 := s.hProg().DescsN(s.po, 0)
	if err != nil || err2 != nil {
		r.Add("harness|idl|parse-error", "http twin: %v %v", err, err2)
		return
	}
	msg := s.t2jMessage()
	var base, out []byte
	var berr, cerr error
	rec := &respRec{}
	co := s.co
	co.EnableHttpMapping = true
	cv1, cv2 := t2j.NewBinaryConv(s.co), t2j.NewBinaryConv(co)
	pi := core.Catch(func() {
		base, berr = cv1.Do(context.Background(), dPlain, msg)
		out, cerr = cv2.Do(context.WithValue(context.Background(), conv.CtxKeyHTTPResponse, rec), dH, msg)
	})
	r.Count("conversions", 2)
	r.Count("http_twins", 1)
	where := "t2j-http"
	if s.nested != nil {
		where = "t2j-http-nested"
		if s.nested.wrap != "" {
			where += "-in-" + s.nested.wrap
		}
	}
	st := [3]string{"absent", "null", "present"}[s.state[1]]
	fail := func(sig, f string, a ...interface{}) {
		r.Class = "violation"
		r.Add(where+"|f1-"+st+","+reqName[s.p.fields[1].req]+"|"+sig, "%s\nprogram %s, parse options SetOptionalBitmap=%v UseDefaultValue=%v; options %s + EnableHttpMapping, f1 annotated api.header=%q\nmessage %x\nwithout the mapping: %s err=%v\nwith the mapping:    %s err=%v, response %v %v",
			fmt.Sprintf(f, a...), s.p.name, s.po.SetOptionalBitmap, s.po.UseDefaultValue, s.optName, hdrName, msg, base, berr, out, cerr, rec.hdr, rec.others)
	}
	switch {
	case pi != nil:
		r.Class = "panic"
		r.Add(where+"|panic@"+pi.Site+":"+core.PanicClass(pi.Val), "message %x\n%s\n%s", msg, pi.Val, pi.Stack)
		return
	case (berr == nil) != (cerr == nil):
		fail("verdict-differs-from-plain-conversion", "the http mapping of a field changes whether the conversion fails")
		return
	case berr != nil:
		if errCode(berr) != errCode(cerr) {
			fail("error-class-differs-from-plain-conversion", "error class %q with the mapping, %q without", errCode(cerr).String(), errCode(berr).String())
		}
		return
	}
	bj, e1 := jt.Parse(base)
	oj, e2 := jt.Parse(out)
	if e1 != nil || e2 != nil || bj.K != 'o' || oj.K != 'o' {
		fail("output|malformed", "not a JSON object: %v %v", e1, e2)
		return
	}
	// the struct that may hand f1 to the response: the root, or the plain struct field "in" of the root
	holder := bj
	if s.nested != nil {
		holder = nil
		if s.nested.wrap == "" {
			for k := range bj.A {
				if string(bj.Keys[k]) == "in" && bj.A[k].K == 'o' {
					holder = bj.A[k]
				}
			}
		}
	}
	var want *string
	if holder != nil {
		for k := range holder.A {
			if string(holder.Keys[k]) == "f1" && holder.A[k].K == 's' {
				v := string(holder.A[k].S)
				want = &v
				holder.A = append(holder.A[:k:k], holder.A[k+1:]...)
				holder.Keys = append(holder.Keys[:k:k], holder.Keys[k+1:]...)
				break
			}
		}
	}
	if len(rec.others) > 0 {
		fail("response|other-parameter-set", "response parameters other than the header were set: %v", rec.others)
		return
	}
	got := rec.hdr[hdrName]
	switch {
	case want == nil && len(rec.hdr) > 0:
		fail("header|set-without-a-value-to-carry", "header(s) %v set although the plain conversion writes no member f1 into a struct with a response setter", rec.hdr)
	case want != nil && len(got) == 0:
		fail("header|not-set", "the value %q of f1 neither reaches the header nor ... (header unset)", *want)
	case want != nil && got[len(got)-1] != *want:
		fail("header|present-or-written-value-altered", "header %s = %q (all writes %q), the plain conversion carries %q", hdrName, got[len(got)-1], got, *want)
	case want != nil && len(rec.hdr) != 1:
		fail("header|other-header-set", "headers %v", rec.hdr)
	}
	if !bytes.Equal(jt.Render(bj, jt.Spell{}), jt.Render(oj, jt.Spell{})) {
		fail("body|differs-from-plain-conversion-minus-f1", "body with the mapping %s, expected %s", jt.Render(oj, jt.Spell{}), jt.Render(bj, jt.Spell{}))
	}
	_ = thrift.STRING
}
