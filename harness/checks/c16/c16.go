// Package c16: requiredness, defaults and unknown-field options behave as the property spells them — a truth
// table over conv/j2t, conv/t2j and generic.Value.MarshalTo ("cutting").
package c16

import (
	"bytes"
	"context"
	"fmt"
	"sort"
	"strings"

	"github.com/cloudwego/dynamicgo/conv"
	"github.com/cloudwego/dynamicgo/conv/j2t"
	"github.com/cloudwego/dynamicgo/conv/t2j"
	"github.com/cloudwego/dynamicgo/meta"
	"github.com/cloudwego/dynamicgo/thrift"
	"github.com/cloudwego/dynamicgo/thrift/generic"
	"github.com/cloudwego/dynamicgo/verifhook"
	"github.com/cloudwego/dynamicgo/vsync"

	"verif/checks/c18"
	"verif/checks/jt"
	"verif/engine/core"
	"verif/ref/tbin"
)

type check struct{}

func init() { core.Register(check{}) }

func (check) ID() string    { return "C16" }
func (check) Level() string { return "exploration" }
func (check) Rule() string {
	return "truth table, exhaustive: programs = structs of 3 fields, each field in every combination of {default, required, optional} x {no default, literal default} (6^3 = 216) with the third field's type rotating over {bool, double, struct, i64, list<i32>, byte, i16} and the id layout over {1,2,3},{63,64,65},{255,256,257},{1,64,1000}; the whole 216-program table again (declared order, no unknown member) on each layout whose largest id is a bitmap-length edge: {1,2,63},{1,2,64},{1,64,128},{2,3,256},{64,128,320},{1,2,32767}; plus depth-2 programs (outer requiredness x inner 6^2); parse options 2^2 {SetOptionalBitmap, UseDefaultValue}; j2t: all 2^4 of {WriteRequireField, WriteDefaultField, WriteOptionalField, DisallowUnknownField} x every input in {absent, null, present}^3 x {no unknown member, unknown member}; t2j: same 2^4 x {absent, present}^3 x {no unknown, unknown} x 2 wire orders; cutting (generic.Value.MarshalTo between two independent parses of the program): all 2^3 of {WriteDefault, NotCheckRequireNess, DisallowUnknow} x {absent, present}^3 x unknown; environment deviations: DoInto capacities, dirty pooled bitmaps (all-ones, capacities 0..17) and dirty native bitmap cache. A case is one (side, program, parse options, options, input). Later additions: the whole table with literals equal to the zero value, unknown members with a null value, the JSON side through the portable converter (pipe server). Round 8: nested structs as elements of list / set / map / list<list>; an http twin of every t2j scenario. Round 10: required base field of a nested instance of a function's root struct (EnableThriftBase parse). Round 11: the struct as second element of a list behind a complete element."
}

func (check) Assumptions() []string {
	return []string{
		"the expected behaviour is the property statement written as a pure function (expect.go): required absent/null -> ErrMissRequiredField unless WriteRequireField; default-requiredness written iff WriteDefaultField; optional written only under SetOptionalBitmap and then iff WriteOptionalField or a parsed default exists; value = parsed IDL default (UseDefaultValue and a scalar literal declared) else zero value / empty struct; unknown -> ErrUnknownField iff disallowed; present fields untouched",
		"not demanded (statement silent): whether a null member of a non-required field counts as absent for writing; the order of written absent fields; for cutting, when tracked optional fields are written (generic.Options has no optional switch) and what NotCheckRequireNess writes",
		"only scalar literal defaults (int, double, string, bool) are used: what other literals parse to is C14's question",
	}
}

func (check) BudgetSeconds(tier string) int {
	if tier == "thorough" {
		return 1500
	}
	return 240
}

// ---------------------------------------------------------------------------------------------
// programs

type fieldSpec struct {
	id     int16
	name   string
	req    int // 0 default, 1 required, 2 optional
	hasDef bool
	shape  *tbin.Shape
	def    *tbin.Val // the literal's value (meaningful when hasDef)
	lit    string
	sample *tbin.Val // the value used when the field is present
}

var reqName = [3]string{"default", "required", "optional"}

type program struct {
	prog   *jt.Prog
	root   *tbin.Shape
	fields []fieldSpec
	name   string
}

var idSets = [][3]int16{{1, 2, 3}, {63, 64, 65}, {255, 256, 257}, {1, 64, 1000}}

// edgeIDSets: layouts whose LARGEST id sits on / next to a bitmap word boundary (the bitmap's length is a
// function of the largest id), plus the largest legal id.
var edgeIDSets = [][3]int16{{1, 2, 63}, {1, 2, 64}, {1, 64, 128}, {2, 3, 256}, {64, 128, 320}, {1, 2, 32767}}

var innerPlain = tbin.StructS(tbin.SField{ID: 1, Name: "ix", S: tbin.Sc(tbin.I32), Req: 2}, tbin.SField{ID: 2, Name: "iy", S: tbin.Sc(tbin.STRING), Req: 1})

func thirdType(k int) (s *tbin.Shape, def *tbin.Val, lit string, sample *tbin.Val) {
	switch k % 7 {
	case 5:
		return tbin.Sc(tbin.BYTE), tbin.Byte(-5), "-5", tbin.Byte(100)
	case 6:
		return tbin.Sc(tbin.I16), tbin.I16v(-300), "-300", tbin.I16v(7)
	case 0:
		return tbin.Sc(tbin.BOOL), tbin.Bool(true), "true", tbin.Bool(false)
	case 1:
		return tbin.Sc(tbin.DOUBLE), tbin.Double(1.5), "1.5", tbin.Double(-0.25)
	case 2:
		return innerPlain, nil, "", tbin.Struct(tbin.F(1, tbin.I32v(3)), tbin.F(2, tbin.Str("in")))
	case 3:
		return tbin.Sc(tbin.I64), tbin.I64v(-9), "-9", tbin.I64v(1 << 40)
	}
	return tbin.ListS(tbin.Sc(tbin.I32)), nil, "", tbin.List(tbin.I32, tbin.I32v(4), tbin.I32v(5))
}

// mkProgram builds program number pi (0..215): field i has requiredness (pi/6^i%6)/2 and a default iff odd.
func mkProgram(pi int) *program { return mkProgramL(pi, -1) }

// zeroLits: the rotating idSets layout with every literal default replaced by the zero value of its type.
const zeroLits = -2

// mkProgramL: layout < 0 = the rotating idSets layout, else edgeIDSets[layout].
func mkProgramL(pi, layout int) *program {
	ids := idSets[pi%len(idSets)]
	p := &program{name: fmt.Sprintf("p%d", pi)}
	if layout == zeroLits {
		p.name = fmt.Sprintf("p%dZ", pi)
	}
	if layout >= 0 {
		ids = edgeIDSets[layout]
		p.name = fmt.Sprintf("p%dL%d", pi, layout)
	}
	root := tbin.StructS()
	for i := 0; i < 3; i++ {
		c := pi
		for k := 0; k < i; k++ {
			c /= 6
		}
		c %= 6
		f := fieldSpec{id: ids[i], name: fmt.Sprintf("f%d", i), req: c / 2, hasDef: c%2 == 1}
		switch i {
		case 0:
			f.shape, f.def, f.lit, f.sample = tbin.Sc(tbin.I32), tbin.I32v(7), "7", tbin.I32v(-100)
		case 1:
			f.shape, f.def, f.lit, f.sample = tbin.Sc(tbin.STRING), tbin.Str("dflt"), `"dflt"`, tbin.Str("given")
		case 2:
			f.shape, f.def, f.lit, f.sample = thirdType(pi)
			if f.def == nil {
				f.hasDef = false
			}
		}
		if layout == zeroLits && f.def != nil {
			// the declared literal IS the zero value of the type: still a parsed default
			f.def = zero(f.shape)
			switch f.shape.T {
			case tbin.STRING:
				f.def, f.lit = tbin.Str(""), `""`
			case tbin.BOOL:
				f.lit = "false"
			case tbin.DOUBLE:
				f.lit = "0.0"
			default:
				f.lit = "0"
			}
		}
		p.fields = append(p.fields, f)
		root.Fields = append(root.Fields, tbin.SField{ID: f.id, Name: f.name, S: f.shape, Req: f.req})
	}
	p.root = root
	p.prog = jt.NewProg(p.name, root)
	for i, f := range p.fields {
		if f.hasDef {
			p.prog.Set(root, i, jt.FX{DefLit: f.lit, Def: f.def})
		}
	}
	return p
}

func zero(s *tbin.Shape) *tbin.Val {
	switch s.T {
	case tbin.BOOL:
		return tbin.Bool(false)
	case tbin.BYTE, tbin.I16, tbin.I32, tbin.I64:
		return &tbin.Val{T: s.T}
	case tbin.DOUBLE:
		return tbin.Double(0)
	case tbin.STRING:
		return tbin.Bin(nil)
	case tbin.LIST, tbin.SET:
		return &tbin.Val{T: s.T, ET: s.Elem.T}
	case tbin.MAP:
		return &tbin.Val{T: tbin.MAP, KT: s.Key.T, ET: s.Elem.T}
	}
	return tbin.Struct()
}

// ---------------------------------------------------------------------------------------------
// the rule (the property statement as a pure function)

type tri int

const (
	mustNot tri = iota
	must
	may
)

type writeOpts struct{ wr, wd, wo bool }

// absentRule: what happens to a declared field that the input does not present.
// Returns missing=true when the conversion must fail with ErrMissRequiredField.
func absentRule(f fieldSpec, po thrift.Options, w writeOpts) (missing bool, written tri) {
	parsedDefault := f.hasDef && po.UseDefaultValue
	switch f.req {
	case 1:
		if !w.wr {
			return true, mustNot
		}
		return false, must
	case 0:
		if w.wd {
			return false, must
		}
		return false, mustNot
	default:
		if !po.SetOptionalBitmap {
			return false, mustNot
		}
		if w.wo || parsedDefault {
			return false, must
		}
		return false, mustNot
	}
}

// writtenValue: the value an absent field is written with.
func writtenValue(f fieldSpec, po thrift.Options) *tbin.Val {
	if f.hasDef && po.UseDefaultValue {
		return f.def
	}
	return zero(f.shape)
}

func fclass(f fieldSpec, po thrift.Options) string {
	c := reqName[f.req]
	if f.hasDef && po.UseDefaultValue {
		c += ",default-parsed"
	} else if f.hasDef {
		c += ",default-unparsed"
	}
	if f.req == 2 && po.SetOptionalBitmap {
		c += ",tracked"
	}
	return c
}

func errCode(err error) meta.ErrCode {
	for err != nil {
		if me, ok := err.(meta.Error); ok {
			return me.Code.Behavior()
		}
		u, ok := err.(interface{ Unwrap() error })
		if !ok {
			break
		}
		err = u.Unwrap()
	}
	return 0
}

// ---------------------------------------------------------------------------------------------
// scenario

type scen struct {
	side    string // j2t | t2j | cut
	p       *program
	po      thrift.Options
	co      conv.Options
	gopt    generic.Options
	optName string
	state   [3]int // per field: 0 absent, 1 null (j2t only), 2 present
	order   []int  // order in which presented fields appear
	unknown bool
	unkNull bool // the unknown member's value is null (j2t sides)
	ks      []int
	dirty   []int // dirty pooled bitmap capacities (t2j/cut) or native cache capacities (j2t)
	nested  *nestedSpec
	custom  func() core.Result // a hand-written scenario (see base.go)
}

type caseDesc struct {
	Side    string `json:"side"`
	IDL     string `json:"idl"`
	Parse   string `json:"parse_options"`
	Options string `json:"options"`
	Input   string `json:"input"`
	Dirty   []int  `json:"dirty_bitmap_capacities,omitempty"`
}

func (s *scen) w() writeOpts {
	if s.side == "cut" {
		return writeOpts{}
	}
	return writeOpts{s.co.WriteRequireField, s.co.WriteDefaultField, s.co.WriteOptionalField}
}

func (s *scen) disallow() bool {
	if s.side == "cut" {
		return s.gopt.DisallowUnknow
	}
	return s.co.DisallowUnknownField
}

// input builds the JSON document (j2t) or the thrift message (t2j, cut) and the list of presented fields.
func (s *scen) jsonDoc() []byte {
	j := jt.JObj()
	n := 0
	for _, i := range s.order {
		f := s.p.fields[i]
		switch s.state[i] {
		case 1:
			j.Add(f.name, jt.JNull())
		case 2:
			x, _ := s.p.prog.Doc(f.sample, f.shape, jt.DocOpt{})
			j.Add(f.name, x)
		default:
			continue
		}
		n++
		if s.unknown && n == 1 {
			if s.unkNull {
				j.Add("unknown_member", jt.JNull())
			} else {
				j.Add("unknown_member", jt.JObj().Add("a", jt.JArr(jt.JNum("1"))))
			}
		}
	}
	if s.unknown && n == 0 {
		if s.unkNull {
			j.Add("unknown_member", jt.JNull())
		} else {
			j.Add("unknown_member", jt.JNum("1"))
		}
	}
	return jt.Render(j, jt.Spell{})
}

// lastMemberClass: the state of the last member of the JSON document (trigger class of capacity findings).
func (s *scen) lastMemberClass() string {
	last := "empty-object"
	for _, i := range s.order {
		switch s.state[i] {
		case 1:
			last = "last-member-null"
		case 2:
			last = "last-member-present"
		}
	}
	if s.unknown && last == "empty-object" {
		last = "last-member-unknown"
	}
	return last
}

func (s *scen) message() *tbin.Val {
	v := tbin.Struct()
	n := 0
	for _, i := range s.order {
		if s.state[i] != 2 {
			continue
		}
		f := s.p.fields[i]
		v.Fs = append(v.Fs, tbin.F(f.id, f.sample))
		n++
		if s.unknown && n == 1 {
			v.Fs = append(v.Fs, tbin.F(777, tbin.List(tbin.STRING, tbin.Str("u"))))
		}
	}
	if s.unknown && n == 0 {
		v.Fs = append(v.Fs, tbin.F(777, tbin.I32v(1)))
	}
	return v
}

// fullMessage: the struct with all three fields present (sample values), no unknown field.
func (s *scen) fullMessage() *tbin.Val {
	v := tbin.Struct()
	for _, f := range s.p.fields {
		v.Fs = append(v.Fs, tbin.F(f.id, f.sample))
	}
	return v
}

func (s *scen) desc() interface{} {
	if s.custom != nil {
		return caseDesc{Side: s.side, IDL: baseMainIDL, Options: s.optName}
	}
	in := ""
	if s.side == "j2t" {
		in = string(s.jsonDoc())
	} else {
		in = fmt.Sprintf("%x  (%s)", tbin.Bytes(s.message()), s.message())
	}
	return caseDesc{Side: s.side, IDL: s.p.prog.IDL(), Parse: fmt.Sprintf("SetOptionalBitmap=%v UseDefaultValue=%v", s.po.SetOptionalBitmap, s.po.UseDefaultValue), Options: s.optName, Input: in, Dirty: s.dirty}
}

// verdict of one execution against the rule. sigs are "trigger|outcome".
type verdict struct {
	sig, detail string
}

// judgeFields compares the fields found in the output with the rule.
// got: id -> value of every field in the output that was NOT presented by the input (extras), dup reports duplicates.
func (s *scen) judgeExtras(extras map[int16]*tbin.Val, valueEqual func(f fieldSpec, got *tbin.Val, want *tbin.Val) bool) *verdict {
	w := s.w()
	for i, f := range s.p.fields {
		if s.state[i] == 2 {
			continue
		}
		_, exp := absentRule(f, s.po, w)
		if s.side == "cut" {
			exp = s.cutRule(f)
		}
		if s.state[i] == 1 && f.req != 1 {
			exp = may // a null member of a non-required field: the statement does not say
		}
		got, ok := extras[f.id]
		delete(extras, f.id)
		cls := fclass(f, s.po) + "/" + s.relOpts(f)
		switch {
		case exp == must && !ok:
			return &verdict{cls + "|not-written", fmt.Sprintf("absent field %d (%s) must be written but is not in the output", f.id, f.name)}
		case exp == mustNot && ok:
			return &verdict{cls + "|written-unexpectedly", fmt.Sprintf("absent field %d (%s) must not be written but the output has it (%s)", f.id, f.name, got)}
		}
		if ok {
			want := writtenValue(f, s.po)
			if !valueEqual(f, got, want) {
				return &verdict{cls + "|wrong-written-value", fmt.Sprintf("absent %s field %d (%s) written as %s, want %s", f.shape.T, f.id, f.name, got, want)}
			}
		}
	}
	if len(extras) > 0 {
		var ids []int
		for id := range extras {
			ids = append(ids, int(id))
		}
		sort.Ints(ids)
		return &verdict{"undeclared|field-invented", fmt.Sprintf("output has fields %v that are neither presented nor declared-absent", ids)}
	}
	return nil
}

func (s *scen) cutRule(f fieldSpec) tri {
	if s.gopt.NotCheckRequireNess {
		return may
	}
	switch f.req {
	case 1:
		return mustNot // absent required is an error (handled before)
	case 0:
		if s.gopt.WriteDefault {
			return must
		}
		return mustNot
	}
	if !s.po.SetOptionalBitmap {
		return mustNot
	}
	return may
}

func (s *scen) relOpts(f fieldSpec) string {
	var p []string
	if s.side == "cut" {
		if s.gopt.WriteDefault {
			p = append(p, "wd")
		}
		if s.gopt.NotCheckRequireNess {
			p = append(p, "nocheck")
		}
		return strings.Join(p, "+")
	}
	w := s.w()
	switch f.req {
	case 1:
		if w.wr {
			p = append(p, "wr")
		}
	case 0:
		if w.wd {
			p = append(p, "wd")
		}
	default:
		if w.wo {
			p = append(p, "wo")
		}
	}
	return strings.Join(p, "+")
}

// mandatory errors of the input under the rule: returns the acceptable error codes (empty = must succeed).
func (s *scen) mandatoryErrors() []meta.ErrCode {
	var codes []meta.ErrCode
	w := s.w()
	for i, f := range s.p.fields {
		if s.state[i] == 2 || f.req != 1 {
			continue
		}
		if s.side == "cut" {
			if !s.gopt.NotCheckRequireNess {
				codes = append(codes, meta.ErrMissRequiredField)
			}
			continue
		}
		if !w.wr {
			codes = append(codes, meta.ErrMissRequiredField)
		}
	}
	if s.unknown && s.disallow() {
		codes = append(codes, meta.ErrUnknownField)
	}
	return codes
}

func (s *scen) errTrigger() string {
	var p []string
	w := s.w()
	for i, f := range s.p.fields {
		if s.state[i] != 2 && f.req == 1 {
			st := "absent"
			if s.state[i] == 1 {
				st = "null"
			}
			if s.side == "cut" {
				p = append(p, "required-"+st)
			} else if !w.wr {
				p = append(p, "required-"+st)
			}
			break
		}
	}
	if s.unknown {
		u := "unknown"
		if s.unkNull {
			u = "unknown-null"
		}
		if s.disallow() {
			p = append(p, u+",disallow")
		} else {
			p = append(p, u)
		}
	}
	if len(p) == 0 {
		return "no-error-condition"
	}
	return strings.Join(p, "+")
}

func (s *scen) judgeErr(err error) *verdict {
	codes := s.mandatoryErrors()
	if len(codes) == 0 {
		if err != nil {
			return &verdict{s.errTrigger() + "|unexpected-error", fmt.Sprintf("must succeed, got error: %v", firstLine(err))}
		}
		return nil
	}
	if err == nil {
		return &verdict{s.errTrigger() + "|no-error", "the rule demands an error (missing required field / unknown field disallowed) but err=nil"}
	}
	got := errCode(err)
	for _, c := range codes {
		if got == c {
			return nil
		}
	}
	return &verdict{s.errTrigger() + "|wrong-error-class", fmt.Sprintf("error class %q, want one of %v: %v", got.String(), codes, firstLine(err))}
}

func firstLine(e error) string {
	t := e.Error()
	if i := strings.IndexByte(t, '\n'); i >= 0 {
		return t[:i]
	}
	return t
}

// presented returns the (id, value) pairs the input presents, in input order.
func (s *scen) presented() []tbin.Field {
	var out []tbin.Field
	for _, i := range s.order {
		if s.state[i] == 2 {
			out = append(out, tbin.F(s.p.fields[i].id, s.p.fields[i].sample))
		}
	}
	return out
}

// judgeThrift checks a thrift output (j2t, cut): presented fields first, unchanged and in input order; then the rule.
func (s *scen) judgeThrift(out []byte) *verdict {
	v, err := tbin.DecodeAll(out, tbin.STRUCT)
	if err != nil {
		return &verdict{"output|malformed", fmt.Sprintf("output %x is not a well-formed struct: %v", out, err)}
	}
	pres := s.presented()
	if len(v.Fs) < len(pres) {
		return &verdict{"present-field|dropped", fmt.Sprintf("output %s has fewer fields than the input presents (%d)", v, len(pres))}
	}
	for i, pf := range pres {
		if v.Fs[i].ID != pf.ID || !tbin.Equal(v.Fs[i].V, pf.V) {
			return &verdict{"present-field|altered", fmt.Sprintf("presented field %d=%s appears as %d=%s (output %s)", pf.ID, pf.V, v.Fs[i].ID, v.Fs[i].V, v)}
		}
	}
	extras := map[int16]*tbin.Val{}
	for _, f := range v.Fs[len(pres):] {
		if _, dup := extras[f.ID]; dup {
			return &verdict{"absent-field|written-twice", fmt.Sprintf("field %d written twice (output %s)", f.ID, v)}
		}
		extras[f.ID] = f.V
	}
	return s.judgeExtras(extras, func(f fieldSpec, got, want *tbin.Val) bool { return tbin.Equal(got, want) })
}

// judgeJSON checks a JSON output (t2j).
func (s *scen) judgeJSON(out []byte) *verdict {
	j, err := jt.Parse(out)
	if err != nil || j.K != 'o' {
		return &verdict{"output|malformed", fmt.Sprintf("output %q is not a JSON object: %v", out, err)}
	}
	used := make([]bool, len(j.A))
	find := func(name string) int {
		for k := range j.A {
			if !used[k] && string(j.Keys[k]) == name {
				used[k] = true
				return k
			}
		}
		return -1
	}
	for _, i := range s.order {
		if s.state[i] != 2 {
			continue
		}
		f := s.p.fields[i]
		k := find(f.name)
		if k < 0 {
			return &verdict{"present-field|dropped", fmt.Sprintf("presented field %s missing from %s", f.name, out)}
		}
		if m := s.p.prog.Match(j.A[k], f.sample, f.shape, jt.EvalOpt{}); m != nil {
			return &verdict{"present-field|altered", fmt.Sprintf("presented field %s: %s (output %s)", f.name, m.Detail, out)}
		}
	}
	extras := map[int16]*tbin.Val{}
	vals := map[int16]*jt.J{}
	for k := range j.A {
		if used[k] {
			continue
		}
		fi := -1
		for i, f := range s.p.fields {
			if f.name == string(j.Keys[k]) {
				fi = i
			}
		}
		if fi < 0 {
			return &verdict{"undeclared|field-invented", fmt.Sprintf("member %q is not a declared field (output %s)", j.Keys[k], out)}
		}
		id := s.p.fields[fi].id
		if _, dup := extras[id]; dup || s.state[fi] == 2 {
			return &verdict{"absent-field|written-twice", fmt.Sprintf("member %q appears twice (output %s)", j.Keys[k], out)}
		}
		extras[id] = tbin.Struct() // placeholder; the JSON node is compared in valueEqual
		vals[id] = j.A[k]
	}
	return s.judgeExtras(extras, func(f fieldSpec, _ *tbin.Val, want *tbin.Val) bool {
		return s.p.prog.Match(vals[f.id], want, f.shape, jt.EvalOpt{}) == nil
	})
}

func (s *scen) run() core.Result {
	if s.custom != nil {
		return s.custom()
	}
	r := s.run0()
	s.httpTwin(&r)
	return r
}

func (s *scen) run0() core.Result {
	r := core.Result{Class: "ok"}
	r.Key = fmt.Sprintf("%s|%s|%v%v|%s|%v|%v|%v%v|%v", s.side, s.p.name, s.po.SetOptionalBitmap, s.po.UseDefaultValue, s.optName, s.state, s.order, s.unknown, s.unkNull, s.nested != nil)
	if s.nested != nil {
		r.Key += fmt.Sprintf("|%d%d%s", s.nested.outerReq, s.nested.outerState, s.nested.wrap)
	}
	if s.side == "j2t-portable" {
		return s.runPortable(r)
	}
	if s.nested != nil {
		return s.runNested(r)
	}
	d1, _, err := s.p.prog.DescsN(s.po, 0)
	_, d1resp, _ := s.p.prog.DescsN(s.po, 0)
	if err != nil {
		r.Class = "idl-error"
		r.Add("harness|idl|parse-error", "%v", err)
		return r
	}
	report := func(op string, v *verdict, extra string) {
		r.Class = "violation"
		r.Add(s.side+"|"+v.sig, "%s%s\nparse options SetOptionalBitmap=%v UseDefaultValue=%v; options %s\n%s", op, extra, s.po.SetOptionalBitmap, s.po.UseDefaultValue, s.optName, v.detail)
	}
	switch s.side {
	case "j2t":
		doc := s.jsonDoc()
		cv := j2t.NewBinaryConv(s.co)
		var out []byte
		var cerr error
		if pi := core.Catch(func() { out, cerr = cv.Do(context.Background(), d1, doc) }); pi != nil {
			r.Class = "panic"
			r.Add("j2t|panic@"+pi.Site+":"+core.PanicClass(pi.Val), "doc %s\n%s\n%s", doc, pi.Val, pi.Stack)
			return r
		}
		r.Count("conversions", 1)
		v := s.judgeErr(cerr)
		if v == nil && cerr == nil {
			v = s.judgeThrift(out)
		}
		if v != nil {
			report("j2t.Do ", v, fmt.Sprintf("doc %s -> %x err=%v", doc, out, cerr))
			return r
		}
		if cerr != nil {
			r.Class = "error:" + errCode(cerr).String()
		}
		{
			// the same options reached through SetOptions on a converter built with the complementary ones
			c := s.co
			cv2 := j2t.NewBinaryConv(conv.Options{WriteRequireField: !c.WriteRequireField, WriteDefaultField: !c.WriteDefaultField, WriteOptionalField: !c.WriteOptionalField, DisallowUnknownField: !c.DisallowUnknownField})
			cv2.SetOptions(c)
			var o2 []byte
			var e2 error
			if pi := core.Catch(func() { o2, e2 = cv2.Do(context.Background(), d1, doc) }); pi != nil {
				r.Class = "panic"
				r.Add("j2t|SetOptions|panic@"+pi.Site+":"+core.PanicClass(pi.Val), "doc %s\n%s", doc, pi.Val)
				return r
			}
			r.Count("conversions", 1)
			if (e2 == nil) != (cerr == nil) || (e2 == nil && !bytes.Equal(o2, out)) {
				r.Class = "violation"
				r.Add("j2t|SetOptions|differs-from-converter-built-with-the-options", "doc %s, options %s: NewBinaryConv(opts) %x err=%v, SetOptions(opts) %x err=%v", doc, s.optName, out, cerr, o2, e2)
				return r
			}
		}
		for _, k := range s.ks {
			buf := make([]byte, 0, len(doc)+k)
			var e2 error
			if pi := core.Catch(func() { e2 = cv.DoInto(context.Background(), d1, doc, &buf) }); pi != nil {
				r.Class = "panic"
				r.Add("j2t|DoInto|panic@"+pi.Site+":"+core.PanicClass(pi.Val), "doc %s k=%d\n%s\n%s", doc, k, pi.Val, pi.Stack)
				return r
			}
			r.Count("conversions", 1)
			if (e2 == nil) != (cerr == nil) || (e2 == nil && !bytes.Equal(buf, out)) {
				r.Class = "violation"
				r.Add("j2t|DoInto|capacity-dependent:"+s.lastMemberClass(), "doc %s, options %s, cap-len=len(src)+%d: Do %x err=%v, DoInto %x err=%v", doc, s.optName, k, out, cerr, buf, e2)
				return r
			}
		}
		for _, c := range s.dirty {
			vsync.Controlled = true
			id := verifhook.C16SeedDirty(c, -1, -1, 0xff)
			var o3 []byte
			var e3 error
			pi := core.Catch(func() { o3, e3 = cv.Do(context.Background(), d1, doc) })
			id2, _, _, _ := verifhook.C02Take()
			vsync.Controlled = false
			r.Count("conversions", 1)
			r.Count("dirty_runs", 1)
			if pi != nil {
				r.Class = "panic"
				r.Add("j2t|dirty-cache|panic@"+pi.Site+":"+core.PanicClass(pi.Val), "doc %s cache %d\n%s", doc, c, pi.Val)
				return r
			}
			if id != id2 {
				r.Add("harness|seed|pooled-object-not-returned", "seeded state machine not taken back")
				continue
			}
			if (e3 == nil) != (cerr == nil) || (e3 == nil && !bytes.Equal(o3, out)) {
				r.Class = "violation"
				r.Add("j2t|dirty-cache|differs", "doc %s, dirty 0xff bitmap cache of %d bytes: clean %x err=%v, dirty %x err=%v", doc, c, out, cerr, o3, e3)
				return r
			}
		}
	case "t2j":
		msg := tbin.Bytes(s.message())
		cv := t2j.NewBinaryConv(s.co)
		var out []byte
		var cerr error
		if pi := core.Catch(func() { out, cerr = cv.Do(context.Background(), d1resp, msg) }); pi != nil {
			r.Class = "panic"
			r.Add("t2j|panic@"+pi.Site+":"+core.PanicClass(pi.Val), "msg %x\n%s\n%s", msg, pi.Val, pi.Stack)
			return r
		}
		r.Count("conversions", 1)
		v := s.judgeErr(cerr)
		if v == nil && cerr == nil {
			v = s.judgeJSON(out)
		}
		if v != nil {
			report("t2j.Do ", v, fmt.Sprintf("msg %x -> %s err=%v", msg, out, cerr))
			return r
		}
		if cerr != nil {
			r.Class = "error:" + errCode(cerr).String()
		}
		{
			c := s.co
			cv2 := t2j.NewBinaryConv(conv.Options{WriteRequireField: !c.WriteRequireField, WriteDefaultField: !c.WriteDefaultField, WriteOptionalField: !c.WriteOptionalField, DisallowUnknownField: !c.DisallowUnknownField})
			cv2.SetOptions(c)
			var o2 []byte
			var e2 error
			if pi := core.Catch(func() { o2, e2 = cv2.Do(context.Background(), d1resp, msg) }); pi != nil {
				r.Class = "panic"
				r.Add("t2j|SetOptions|panic@"+pi.Site+":"+core.PanicClass(pi.Val), "msg %x\n%s", msg, pi.Val)
				return r
			}
			r.Count("conversions", 1)
			if (e2 == nil) != (cerr == nil) || (e2 == nil && !bytes.Equal(o2, out)) {
				r.Class = "violation"
				r.Add("t2j|SetOptions|differs-from-converter-built-with-the-options", "msg %x, options %s: NewBinaryConv(opts) %s err=%v, SetOptions(opts) %s err=%v", msg, s.optName, out, cerr, o2, e2)
				return r
			}
		}
		for _, c := range s.dirty {
			vsync.Controlled = true
			d := make(thrift.RequiresBitmap, c)
			for i := range d {
				d[i] = ^uint64(0)
			}
			thrift.FreeRequiresBitmap(&d) // top of the (LIFO) bitmap pool: the next NewRequiresBitmap gets it
			var o3 []byte
			var e3 error
			pi := core.Catch(func() { o3, e3 = cv.Do(context.Background(), d1resp, msg) })
			vsync.Reset()
			vsync.Controlled = false
			r.Count("conversions", 1)
			r.Count("dirty_runs", 1)
			if pi != nil {
				r.Class = "panic"
				r.Add("t2j|dirty-bitmap|panic@"+pi.Site+":"+core.PanicClass(pi.Val), "msg %x bitmap cap %d\n%s", msg, c, pi.Val)
				return r
			}
			if (e3 == nil) != (cerr == nil) || (e3 == nil && !bytes.Equal(o3, out)) {
				r.Class = "violation"
				r.Add("t2j|dirty-bitmap|differs", "msg %x, pooled all-ones bitmap of capacity %d: clean %s err=%v, dirty %s err=%v", msg, c, out, cerr, o3, e3)
				return r
			}
		}
	case "cut":
		msg := tbin.Bytes(s.message())
		d2, _, err := s.p.prog.DescsN(s.po, 1)
		if err != nil {
			r.Add("harness|idl|parse-error", "%v", err)
			return r
		}
		var out []byte
		var cerr error
		run := func() ([]byte, error, *core.PanicInfo) {
			var o []byte
			var e error
			g := s.gopt
			pi := core.Catch(func() { o, e = generic.NewValue(d1, msg).MarshalTo(d2, &g) })
			return o, e, pi
		}
		var pi *core.PanicInfo
		out, cerr, pi = run()
		if pi != nil {
			r.Class = "panic"
			r.Add("cut|panic@"+pi.Site+":"+core.PanicClass(pi.Val), "msg %x\n%s\n%s", msg, pi.Val, pi.Stack)
			return r
		}
		r.Count("conversions", 1)
		v := s.judgeErr(cerr)
		if v == nil && cerr == nil {
			v = s.judgeThrift(out)
		}
		if v != nil {
			report("MarshalTo ", v, fmt.Sprintf("msg %x -> %x err=%v", msg, out, cerr))
			return r
		}
		if cerr != nil {
			r.Class = "error:" + errCode(cerr).String()
		}
		for _, c := range s.dirty {
			vsync.Controlled = true
			d := make(thrift.RequiresBitmap, c)
			for i := range d {
				d[i] = ^uint64(0)
			}
			thrift.FreeRequiresBitmap(&d)
			o3, e3, pi := run()
			vsync.Reset()
			vsync.Controlled = false
			r.Count("conversions", 1)
			r.Count("dirty_runs", 1)
			if pi != nil {
				r.Class = "panic"
				r.Add("cut|dirty-bitmap|panic@"+pi.Site+":"+core.PanicClass(pi.Val), "msg %x bitmap cap %d\n%s", msg, c, pi.Val)
				return r
			}
			if (e3 == nil) != (cerr == nil) || (e3 == nil && !bytes.Equal(o3, out)) {
				r.Class = "violation"
				r.Add("cut|dirty-bitmap|differs", "msg %x, pooled all-ones bitmap of capacity %d: clean %x err=%v, dirty %x err=%v", msg, c, out, cerr, o3, e3)
				return r
			}
		}
	}
	return r
}

func (s *scen) Case() core.Case {
	return core.Case{Tag: s.side, Desc: s.desc, Run: s.run}
}

// runPortable: the same j2t scenario through the portable converter (second binary, pipe server of C18). Over the
// pipe only the presence of an error is visible, not its class; parse options are the defaults.
func (s *scen) runPortable(r core.Result) core.Result {
	doc := s.jsonDoc()
	bits := 0
	if s.co.DisallowUnknownField {
		bits |= c18.ODisallowUnknownField
	}
	if s.co.WriteDefaultField {
		bits |= c18.OWriteDefaultField
	}
	if s.co.WriteRequireField {
		bits |= c18.OWriteRequireField
	}
	res, died, diag, err := c18.Portable(&c18.Req{IDL: s.p.prog.IDL(), Opts: []int{bits}, Doc: doc})
	r.Count("conversions", 1)
	switch {
	case err != nil:
		r.Class = "harness-portable"
		r.Add("harness|portable-server", "%v", err)
		return r
	case died:
		r.Class = "died"
		r.Add("j2t-portable|"+s.errTrigger()+"|process-died-or-hung", "doc %s options %s: the portable converter process died or hung\n%s", doc, s.optName, diag)
		return r
	case res[0].Panic != "":
		r.Class = "panic"
		r.Add("j2t-portable|panic@"+res[0].Site+":"+core.PanicClass(res[0].Panic), "doc %s options %s\n%s", doc, s.optName, res[0].Panic)
		return r
	}
	mustFail := len(s.mandatoryErrors()) > 0
	var v *verdict
	switch {
	case mustFail && res[0].Err == "":
		v = &verdict{s.errTrigger() + "|no-error", "the rule demands an error (missing required field / unknown field disallowed) but the conversion succeeded"}
	case !mustFail && res[0].Err != "":
		v = &verdict{s.errTrigger() + "|unexpected-error", "must succeed, got error: " + res[0].Err}
	case !mustFail:
		v = s.judgeThrift(res[0].Out)
	}
	if v != nil {
		r.Class = "violation"
		r.Add("j2t-portable|"+v.sig, "portable j2t.Do doc %s -> %x err=%q\noptions %s\n%s", doc, res[0].Out, res[0].Err, s.optName, v.detail)
	} else if res[0].Err != "" {
		r.Class = "error"
	}
	return r
}
