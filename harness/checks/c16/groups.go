package c16

import (
	"context"
	"fmt"

	"github.com/cloudwego/dynamicgo/conv"
	"github.com/cloudwego/dynamicgo/conv/j2t"
	"github.com/cloudwego/dynamicgo/conv/t2j"
	"github.com/cloudwego/dynamicgo/thrift"
	"github.com/cloudwego/dynamicgo/thrift/generic"

	"verif/checks/jt"
	"verif/engine/core"
	"verif/ref/tbin"
)

var convFlags = []jt.Flag{jt.FWriteRequire, jt.FWriteDefault, jt.FWriteOptional, jt.FDisallow}

func parseOpts() []thrift.Options {
	var out []thrift.Options
	for m := 0; m < 4; m++ {
		out = append(out, thrift.Options{SetOptionalBitmap: m&1 != 0, UseDefaultValue: m&2 != 0})
	}
	return out
}

type group struct {
	name string
	enum func(tier string, yield func(*scen) bool)
}

const progChunk = 18

func groups(tier string) []group {
	var gs []group
	for _, side := range []string{"j2t", "t2j", "cut"} {
		side := side
		for from := 0; from < 216; from += progChunk {
			from := from
			gs = append(gs, group{fmt.Sprintf("%s/p%d-%d", side, from, from+progChunk), func(tier string, y func(*scen) bool) { enumFlat(tier, side, -1, from, from+progChunk, y) }})
		}
		// the same table on layouts whose largest id is 63, 64, 128, 256, 320, 32767 (bitmap length edges)
		for l := range edgeIDSets {
			l := l
			for from := 0; from < 216; from += 72 {
				from := from
				gs = append(gs, group{fmt.Sprintf("%s-maxid%d/p%d-%d", side, edgeIDSets[l][2], from, from+72), func(tier string, y func(*scen) bool) { enumFlat(tier, side, l, from, from+72, y) }})
			}
		}
		for from := 0; from < 216; from += 36 {
			from := from
			gs = append(gs, group{fmt.Sprintf("%s-nested/p%d-%d", side, from, from+36), func(tier string, y func(*scen) bool) { enumNested(tier, side, from, from+36, y) }})
		}
	}
	// the whole table with literal defaults that equal the zero value (a parsed default all the same)
	for _, side := range []string{"j2t", "t2j", "cut"} {
		side := side
		for from := 0; from < 216; from += 72 {
			from := from
			gs = append(gs, group{fmt.Sprintf("%s-zero-literals/p%d-%d", side, from, from+72), func(tier string, y func(*scen) bool) { enumFlat(tier, side, zeroLits, from, from+72, y) }})
		}
	}
	// the JSON side again through the portable converter (default parse options, the options its server knows)
	for from := 0; from < 216; from += 36 {
		from := from
		gs = append(gs, group{fmt.Sprintf("j2t-portable/p%d-%d", from, from+36), func(tier string, y func(*scen) bool) { enumFlat(tier, "j2t-portable", -1, from, from+36, y) }})
	}
	gs = append(gs, group{"dirty", enumDirty})
	gs = append(gs, group{"base-nested", enumBaseNested})
	return gs
}

func (check) Groups(tier string, seed int64) []string {
	var n []string
	for _, g := range groups(tier) {
		n = append(n, g.name)
	}
	return n
}

func (check) Enumerate(tier string, seed int64, g int, yield func(core.Case) bool) {
	groups(tier)[g].enum(tier, func(s *scen) bool { return yield(s.Case()) })
}

func (check) SelfCheck() error { return jt.SelfCheck() }

var orders = [][]int{{0, 1, 2}, {2, 1, 0}}

func genericOpts() []struct {
	name string
	o    generic.Options
} {
	var out []struct {
		name string
		o    generic.Options
	}
	for m := 0; m < 8; m++ {
		o := generic.Options{WriteDefault: m&1 != 0, NotCheckRequireNess: m&2 != 0, DisallowUnknow: m&4 != 0}
		out = append(out, struct {
			name string
			o    generic.Options
		}{fmt.Sprintf("WriteDefault=%v NotCheckRequireNess=%v DisallowUnknow=%v", o.WriteDefault, o.NotCheckRequireNess, o.DisallowUnknow), o})
	}
	return out
}

func enumFlat(tier, side string, layout, from, to int, yield func(*scen) bool) {
	nst := 3
	if side != "j2t" && side != "j2t-portable" {
		nst = 2
	}
	for pi := from; pi < to; pi++ {
		p := mkProgramL(pi, layout)
		for _, po := range parseOpts() {
			if side == "j2t-portable" && (po.SetOptionalBitmap || po.UseDefaultValue) {
				continue // the portable server parses with default options
			}
			emit := func(co conv.Options, g generic.Options, on string) bool {
				total := 1
				for i := 0; i < 3; i++ {
					total *= nst
				}
				for st := 0; st < total; st++ {
					var states [3]int
					x := st
					for i := 0; i < 3; i++ {
						states[i] = x % nst
						x /= nst
						if nst == 2 && states[i] == 1 {
							states[i] = 2
						}
					}
					for oi, ord := range orders {
						if side == "j2t" && oi == 1 && st%2 == 0 {
							continue // j2t: the reversed order for every second input (document order is C02's topic)
						}
						for _, unk := range []bool{false, true} {
							sc := &scen{side: side, p: p, po: po, co: co, gopt: g, optName: on, state: states, order: ord, unknown: unk}
							if side == "j2t" {
								sc.ks = []int{0, 1, 2, 3, 5, 8, 13}
								if layout != -1 {
									sc.ks = []int{0, 3}
								}
							}
							if layout != -1 && (oi == 1 || unk) {
								continue // edge layouts / zero literals: declared order, no unknown member
							}
							if !yield(sc) {
								return false
							}
							if unk && (side == "j2t" || side == "j2t-portable") {
								// the unknown member spelled with a null value
								nc := *sc
								nc.unkNull = true
								if !yield(&nc) {
									return false
								}
							}
						}
					}
				}
				return true
			}
			if side == "cut" {
				for _, g := range genericOpts() {
					if !emit(conv.Options{}, g.o, g.name) {
						return
					}
				}
			} else {
				for _, os := range jt.Subsets(convFlags...) {
					if side == "j2t-portable" && os.O.WriteOptionalField {
						continue // not among the options of the portable server
					}
					if !emit(os.O, generic.Options{}, os.Name) {
						return
					}
				}
			}
		}
	}
}

// enumDirty: dirty pooled bitmaps / dirty native bitmap cache for a slice of the table (every 7th program, all
// parse options, the empty and the full option set, every input).
func enumDirty(tier string, yield func(*scen) bool) {
	step := 7
	if tier == "thorough" {
		step = 1
	}
	for pi := 0; pi < 216; pi += step {
		p := mkProgram(pi)
		for _, po := range parseOpts() {
			for _, side := range []string{"j2t", "t2j", "cut"} {
				nst := 2
				for st := 0; st < 8; st++ {
					var states [3]int
					for i := 0; i < 3; i++ {
						if st>>uint(i)&1 == 1 {
							states[i] = 2
						}
					}
					_ = nst
					for _, full := range []bool{false, true} {
						sc := &scen{side: side, p: p, po: po, state: states, order: orders[0], optName: "none"}
						if full {
							sc.co = conv.Options{WriteRequireField: true, WriteDefaultField: true, WriteOptionalField: true}
							sc.gopt = generic.Options{WriteDefault: true}
							sc.optName = "all write options"
						}
						if side == "j2t" {
							sc.dirty = []int{0, 8, 16, 24, 128, 136, 4096}
						} else {
							sc.dirty = []int{0, 1, 2, 4, 5, 6, 15, 16, 17}
						}
						if !yield(sc) {
							return
						}
					}
				}
			}
		}
	}
}

// ---------------------------------------------------------------------------------------------
// depth 2: the three-field program as the type of an outer field of every requiredness

type nestedSpec struct {
	outerReq   int
	outerState int // 0 absent, 1 null (j2t), 2 present
	outer      *jt.Prog
	outerRoot  *tbin.Shape
	// wrap: the struct is not the outer field's type itself but an element of it: "" (plain field), "list", "set",
	// "map" (value under key "k") or "list<list>"; wrapped scenarios always present the outer field
	wrap string
}

var wraps = []string{"", "list", "set", "map", "list<list>", "list-behind-a-complete-element"}

func wrapShape(s *tbin.Shape, w string) *tbin.Shape {
	switch w {
	case "list", "list-behind-a-complete-element":
		return tbin.ListS(s)
	case "set":
		return tbin.SetS(s)
	case "map":
		return tbin.MapS(tbin.Sc(tbin.STRING), s)
	case "list<list>":
		return tbin.ListS(tbin.ListS(s))
	}
	return s
}

func wrapVal(v *tbin.Val, w string) *tbin.Val {
	switch w {
	case "list-behind-a-complete-element":
		panic("use wrapVal2")
	case "list":
		return tbin.List(tbin.STRUCT, v)
	case "set":
		return tbin.Set(tbin.STRUCT, v)
	case "map":
		return tbin.Map(tbin.STRING, tbin.STRUCT, tbin.Str("k"), v)
	case "list<list>":
		return tbin.List(tbin.LIST, tbin.List(tbin.STRUCT, v))
	}
	return v
}

// wrapVal2 / wrapJSON2: the element under test is the SECOND element of a list whose first element carries every
// field (per-element state - a requiredness bitmap - must not survive from one element to the next)
func wrapVal2(full, v *tbin.Val, w string) *tbin.Val {
	if w == "list-behind-a-complete-element" {
		return tbin.List(tbin.STRUCT, full, v)
	}
	return wrapVal(v, w)
}

func wrapJSON2(full, x *jt.J, w string) *jt.J {
	if w == "list-behind-a-complete-element" {
		return jt.JArr(full, x)
	}
	return wrapJSON(x, w)
}

func wrapJSON(x *jt.J, w string) *jt.J {
	switch w {
	case "list", "set":
		return jt.JArr(x)
	case "map":
		o := jt.JObj()
		o.Add("k", x)
		return o
	case "list<list>":
		return jt.JArr(jt.JArr(x))
	}
	return x
}

// unwrapJSON / unwrapVal: the single struct inside the wrapper the library wrote, nil if the wrapper is not of
// the presented form (one element / one entry under "k")
func unwrapJSON(x *jt.J, w string) *jt.J {
	one := func(x *jt.J) *jt.J {
		if x == nil || x.K != 'a' || len(x.A) != 1 {
			return nil
		}
		return x.A[0]
	}
	switch w {
	case "list-behind-a-complete-element":
		if x == nil || x.K != 'a' || len(x.A) != 2 {
			return nil
		}
		return x.A[1]
	case "list", "set":
		return one(x)
	case "map":
		if x == nil || x.K != 'o' || len(x.A) != 1 || string(x.Keys[0]) != "k" {
			return nil
		}
		return x.A[0]
	case "list<list>":
		return one(one(x))
	}
	return x
}

func unwrapVal(v *tbin.Val, w string) *tbin.Val {
	one := func(v *tbin.Val, t tbin.Type) *tbin.Val {
		if v == nil || v.T != t || len(v.L) != 1 {
			return nil
		}
		return v.L[0]
	}
	switch w {
	case "list-behind-a-complete-element":
		if v == nil || v.T != tbin.LIST || len(v.L) != 2 {
			return nil
		}
		return v.L[1]
	case "list":
		return one(v, tbin.LIST)
	case "set":
		return one(v, tbin.SET)
	case "map":
		if v == nil || v.T != tbin.MAP || len(v.L) != 1 || len(v.K) != 1 || !tbin.Equal(v.K[0], tbin.Str("k")) {
			return nil
		}
		return v.L[0]
	case "list<list>":
		return one(one(v, tbin.LIST), tbin.LIST)
	}
	return v
}

const outerID, tailID = 10, 11

func enumNested(tier, side string, from, to int, yield func(*scen) bool) {
	for pi := from; pi < to; pi++ {
		for wo := 0; wo < 3*len(wraps); wo++ {
			outerReq, wrap := wo%3, wraps[wo/3]
			if wrap != "" && outerReq != 0 {
				continue
			}
			inner := mkProgram(pi)
			root := tbin.StructS(tbin.SField{ID: outerID, Name: "in", S: wrapShape(inner.root, wrap), Req: outerReq}, tbin.SField{ID: tailID, Name: "tail", S: tbin.Sc(tbin.I32), Req: 2})
			op := jt.NewProg(fmt.Sprintf("nested-%d-%d%s", pi, outerReq, wrap), root)
			for i, f := range inner.fields {
				if f.hasDef {
					op.Set(inner.root, i, jt.FX{DefLit: f.lit, Def: f.def})
				}
			}
			for _, po := range parseOpts() {
				emit := func(co conv.Options, g generic.Options, on string) bool {
					for outerState := 0; outerState < 3; outerState++ {
						if outerState == 1 && side != "j2t" || wrap != "" && outerState != 2 {
							continue
						}
						nin := 8
						if outerState != 2 {
							nin = 1
						}
						for st := 0; st < nin; st++ {
							var states [3]int
							for i := 0; i < 3; i++ {
								if st>>uint(i)&1 == 1 {
									states[i] = 2
								}
							}
							sc := &scen{side: side, p: inner, po: po, co: co, gopt: g, optName: on, state: states, order: orders[0],
								nested: &nestedSpec{outerReq: outerReq, outerState: outerState, outer: op, outerRoot: root, wrap: wrap}}
							if !yield(sc) {
								return false
							}
						}
					}
					return true
				}
				if side == "cut" {
					for _, g := range genericOpts() {
						if g.o.DisallowUnknow {
							continue
						}
						if !emit(conv.Options{}, g.o, g.name) {
							return
						}
					}
				} else {
					for _, os := range jt.Subsets(convFlags[:3]...) {
						if !emit(os.O, generic.Options{}, os.Name) {
							return
						}
					}
				}
			}
		}
	}
}

func (s *scen) runNested(r core.Result) core.Result {
	n := s.nested
	dreq, dresp, err := n.outer.DescsN(s.po, 0)
	if err != nil {
		r.Class = "idl-error"
		r.Add("harness|idl|parse-error", "%v", err)
		return r
	}
	outerF := fieldSpec{id: outerID, name: "in", req: n.outerReq, shape: s.p.root}
	// the rule for the outer field and the inner fields
	var codes []string
	w := s.w()
	missingOuter, outerExp := absentRule(outerF, s.po, w)
	if s.side == "cut" {
		missingOuter = n.outerReq == 1 && !s.gopt.NotCheckRequireNess
		outerExp = s.cutRule(outerF)
	}
	mustErr := false
	if n.outerState != 2 {
		if missingOuter {
			mustErr = true
			codes = append(codes, "outer-required-missing")
		}
		if n.outerState == 1 && n.outerReq != 1 {
			outerExp = may
		}
	} else if len(s.mandatoryErrors()) > 0 {
		mustErr = true
		codes = append(codes, "inner-required-missing")
	}
	innerVal := s.message() // inner struct value (presented fields only)
	tail := tbin.F(tailID, tbin.I32v(42))
	var out []byte
	var cerr error
	var input string
	var pi *core.PanicInfo
	switch s.side {
	case "j2t":
		j := jt.JObj()
		switch n.outerState {
		case 1:
			j.Add("in", jt.JNull())
		case 2:
			x, _ := s.p.prog.Doc(innerVal, s.p.root, jt.DocOpt{})
			fx, _ := s.p.prog.Doc(s.fullMessage(), s.p.root, jt.DocOpt{})
			j.Add("in", wrapJSON2(fx, x, n.wrap))
		}
		j.Add("tail", jt.JNum("42"))
		doc := jt.Render(j, jt.Spell{})
		input = string(doc)
		cv := j2t.NewBinaryConv(s.co)
		pi = core.Catch(func() { out, cerr = cv.Do(context.Background(), dreq, doc) })
	default:
		v := tbin.Struct()
		if n.outerState == 2 {
			v.Fs = append(v.Fs, tbin.F(outerID, wrapVal2(s.fullMessage(), innerVal, n.wrap)))
		}
		v.Fs = append(v.Fs, tail)
		msg := tbin.Bytes(v)
		input = fmt.Sprintf("%x (%s)", msg, v)
		if s.side == "t2j" {
			cv := t2j.NewBinaryConv(s.co)
			pi = core.Catch(func() { out, cerr = cv.Do(context.Background(), dresp, msg) })
		} else {
			d2, _, e := n.outer.DescsN(s.po, 1)
			if e != nil {
				r.Add("harness|idl|parse-error", "%v", e)
				return r
			}
			g := s.gopt
			pi = core.Catch(func() { out, cerr = generic.NewValue(dreq, msg).MarshalTo(d2, &g) })
		}
	}
	r.Count("conversions", 1)
	side := s.side + "-nested"
	if n.wrap != "" {
		side += "-in-" + n.wrap
	}
	ctx := fmt.Sprintf("outer field %s"+map[bool]string{true: " holding the struct in a " + n.wrap}[n.wrap != ""]+", inner program %s\nparse options SetOptionalBitmap=%v UseDefaultValue=%v; options %s\ninput %s\noutput %q / %x err=%v", reqName[n.outerReq], s.p.name, s.po.SetOptionalBitmap, s.po.UseDefaultValue, s.optName, input, out, out, cerr)
	if pi != nil {
		r.Class = "panic"
		r.Add(side+"|panic@"+pi.Site+":"+core.PanicClass(pi.Val), "%s\n%s\n%s", ctx, pi.Val, pi.Stack)
		return r
	}
	fail := func(sig, f string, a ...interface{}) core.Result {
		r.Class = "violation"
		r.Add(side+"|"+sig, "%s\n%s", fmt.Sprintf(f, a...), ctx)
		return r
	}
	if mustErr {
		if cerr == nil {
			return fail(codes[0]+"|no-error", "the rule demands ErrMissRequiredField")
		}
		if c := errCode(cerr); c.String() != "missing required field" {
			return fail(codes[0]+"|wrong-error-class", "error class %q", c.String())
		}
		r.Class = "error:missing required field"
		return r
	}
	if cerr != nil {
		return fail("no-error-condition|unexpected-error", "must succeed: %v", firstLine(cerr))
	}
	ocls := fmt.Sprintf("outer-%s,struct/%s", reqName[n.outerReq], s.relOpts(outerF))
	if s.side == "t2j" {
		j, err := jt.Parse(out)
		if err != nil || j.K != 'o' {
			return fail("output|malformed", "not a JSON object: %v", err)
		}
		var inJ *jt.J
		sawTail := false
		for k := range j.A {
			switch string(j.Keys[k]) {
			case "in":
				if inJ != nil {
					return fail("absent-field|written-twice", "member in twice")
				}
				inJ = j.A[k]
			case "tail":
				sawTail = j.A[k].K == '#' && j.A[k].Lit == "42"
			default:
				return fail("undeclared|field-invented", "member %q", j.Keys[k])
			}
		}
		if !sawTail {
			return fail("present-field|altered", "tail member missing or changed")
		}
		if n.outerState == 2 {
			if inJ = unwrapJSON(inJ, n.wrap); inJ == nil {
				return fail("present-field|dropped", "presented struct member missing (or not the one-element container presented)")
			}
			if v := s.judgeJSON(jt.Render(inJ, jt.Spell{})); v != nil {
				return fail("inner:"+v.sig, "%s", v.detail)
			}
			return r
		}
		switch {
		case outerExp == must && inJ == nil:
			return fail(ocls+"|not-written", "absent struct field must be written (as {})")
		case outerExp == mustNot && inJ != nil:
			return fail(ocls+"|written-unexpectedly", "absent struct field must not be written")
		case inJ != nil && (inJ.K != 'o' || len(inJ.A) != 0):
			return fail(ocls+"|wrong-written-value", "absent struct field must be written as the empty struct, got %s", jt.Render(inJ, jt.Spell{}))
		}
		return r
	}
	v, err := tbin.DecodeAll(out, tbin.STRUCT)
	if err != nil {
		return fail("output|malformed", "not a well-formed struct: %v", err)
	}
	var inV *tbin.Val
	sawTail := false
	for _, f := range v.Fs {
		switch f.ID {
		case outerID:
			if inV != nil {
				return fail("absent-field|written-twice", "field %d twice", outerID)
			}
			inV = f.V
		case tailID:
			sawTail = tbin.Equal(f.V, tail.V)
		default:
			return fail("undeclared|field-invented", "field %d", f.ID)
		}
	}
	if !sawTail {
		return fail("present-field|altered", "tail field missing or changed")
	}
	if n.outerState == 2 {
		if inV = unwrapVal(inV, n.wrap); inV == nil || inV.T != tbin.STRUCT || v.Fs[0].ID != outerID {
			return fail("present-field|dropped", "presented struct field missing or moved")
		}
		if vd := s.judgeThrift(tbin.Bytes(inV)); vd != nil {
			return fail("inner:"+vd.sig, "%s", vd.detail)
		}
		return r
	}
	switch {
	case outerExp == must && inV == nil:
		return fail(ocls+"|not-written", "absent struct field must be written (as the empty struct)")
	case outerExp == mustNot && inV != nil:
		return fail(ocls+"|written-unexpectedly", "absent struct field must not be written")
	case inV != nil && (inV.T != tbin.STRUCT || len(inV.Fs) != 0):
		return fail(ocls+"|wrong-written-value", "absent struct field must be written as the empty struct, got %s", inV)
	}
	return r
}
