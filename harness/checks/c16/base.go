package c16

import (
	"context"
	"fmt"

	"github.com/cloudwego/dynamicgo/conv"
	"github.com/cloudwego/dynamicgo/conv/j2t"
	"github.com/cloudwego/dynamicgo/conv/t2j"
	"github.com/cloudwego/dynamicgo/thrift"

	"verif/engine/core"
	"verif/ref/tbin"
)

// Structs that carry a REQUIRED base.Base / base.BaseResp field and are both the root struct of a function and used
// below a root (self reference, element of a list in another function's response). With thrift.Options.EnableThriftBase
// the base field of a function's ROOT struct is special (it may come from the context); the same field of a nested
// instance is an ordinary required field: absent => missing-required-field error unless WriteRequireField, which
// writes it as the empty struct.

const baseIDLText = "namespace go base\nstruct Base {\n  1: string LogID = \"\",\n  2: string Caller = \"\",\n}\nstruct BaseResp {\n  1: string StatusMessage = \"\",\n  2: i32 StatusCode = 0,\n}\n"

const baseMainIDL = "include \"base.thrift\"\nnamespace go demo\nstruct Node {\n  1: optional Node Child,\n  2: required string Name,\n  255: required base.Base Base,\n}\nstruct Item {\n  1: required string Name,\n  255: required base.BaseResp BaseResp,\n}\nstruct Page {\n  1: required list<Item> Items,\n}\nservice Demo {\n  Item GetItem(1: Node req)\n  Page ListItems(1: Node req)\n}\n"

func enumBaseNested(tier string, yield func(*scen) bool) {
	for _, tb := range []bool{true, false} {
		for _, wr := range []bool{false, true} {
			for _, side := range []string{"j2t", "t2j"} {
				tb, wr, side := tb, wr, side
				s := &scen{side: side + "-base-nested", optName: fmt.Sprintf("EnableThriftBase(parse)=%v WriteRequireField=%v", tb, wr)}
				s.custom = func() core.Result { return runBaseNested(tb, wr, side) }
				if !yield(s) {
					return
				}
			}
		}
	}
}

func runBaseNested(tb, wr bool, side string) core.Result {
	r := core.Result{Class: "ok", Key: fmt.Sprintf("base-nested|%v|%v|%s", tb, wr, side)}
	path := "a/b/main.thrift"
	svc, err := thrift.Options{EnableThriftBase: tb}.NewDescritorFromContent(context.Background(), path, baseMainIDL, map[string]string{path: baseMainIDL, "a/b/base.thrift": baseIDLText}, true)
	if err != nil {
		r.Add("harness|idl|parse-error", "%v", err)
		return r
	}
	where := fmt.Sprintf("%s, descriptor parsed with EnableThriftBase=%v, WriteRequireField=%v", side, tb, wr)
	trig := fmt.Sprintf("required-base-field-of-a-nested-instance-absent,EnableThriftBase=%v", tb)
	fail := func(sig, f string, a ...interface{}) {
		r.Class = "violation"
		r.Add(side+"-base-nested|"+trig+"|"+sig, "%s: %s", where, fmt.Sprintf(f, a...))
	}
	co := conv.Options{WriteRequireField: wr}
	var out []byte
	var cerr error
	pi := core.Catch(func() {
		if side == "j2t" {
			d := svc.Functions()["GetItem"].Request().Struct().FieldById(1).Type()
			cv := j2t.NewBinaryConv(co)
			out, cerr = cv.Do(context.Background(), d, []byte(`{"Name":"root","Base":{"LogID":"1"},"Child":{"Name":"leaf"}}`))
		} else {
			d := svc.Functions()["ListItems"].Response().Struct().FieldById(0).Type()
			msg := tbin.Bytes(tbin.Struct(tbin.F(1, tbin.List(tbin.STRUCT, tbin.Struct(tbin.F(1, tbin.Str("x")))))))
			cv := t2j.NewBinaryConv(co)
			out, cerr = cv.Do(context.Background(), d, msg)
		}
	})
	r.Count("conversions", 1)
	switch {
	case pi != nil:
		r.Class = "panic"
		r.Add(side+"-base-nested|panic@"+pi.Site+":"+core.PanicClass(pi.Val), "%s\n%s\n%s", where, pi.Val, pi.Stack)
	case !wr && cerr == nil:
		fail("no-error", "the nested instance lacks its required base field, yet the conversion succeeded: %q / %x", out, out)
	case !wr && errCode(cerr).String() != "missing required field":
		fail("wrong-error-class", "error class %q: %v", errCode(cerr).String(), firstLine(cerr))
	case wr && cerr != nil:
		fail("unexpected-error", "WriteRequireField is set: %v", firstLine(cerr))
	case wr && side == "t2j" && string(out) != `{"Items":[{"Name":"x","BaseResp":{}}]}`:
		fail("wrong-written-value", "output %s, want {\"Items\":[{\"Name\":\"x\",\"BaseResp\":{}}]}", out)
	case wr && side == "j2t":
		v, derr := tbin.DecodeAll(out, tbin.STRUCT)
		var child *tbin.Val
		if derr == nil {
			child = v.FieldByID(1)
		}
		if derr != nil || child == nil || child.FieldByID(255) == nil || child.FieldByID(255).T != tbin.STRUCT {
			fail("not-written", "output %x: the nested instance has no field 255 (%v)", out, derr)
		}
	}
	return r
}
