package jt

import (
	"strings"

	"github.com/cloudwego/dynamicgo/conv"
)

// Flag is one boolean conv.Options field named by a property.
type Flag struct {
	Name string
	Set  func(o *conv.Options)
}

var (
	FString2Int64  = Flag{"String2Int64", func(o *conv.Options) { o.String2Int64 = true }}
	FInt642String  = Flag{"Int642String", func(o *conv.Options) { o.Int642String = true }}
	FNoBase64      = Flag{"NoBase64Binary", func(o *conv.Options) { o.NoBase64Binary = true }}
	FByteAsUint8   = Flag{"ByteAsUint8", func(o *conv.Options) { o.ByteAsUint8 = true }}
	FDisallow      = Flag{"DisallowUnknownField", func(o *conv.Options) { o.DisallowUnknownField = true }}
	FValueMapping  = Flag{"EnableValueMapping", func(o *conv.Options) { o.EnableValueMapping = true }}
	FThriftBase    = Flag{"EnableThriftBase", func(o *conv.Options) { o.EnableThriftBase = true }}
	FNativeSkip    = Flag{"UseNativeSkip", func(o *conv.Options) { o.UseNativeSkip = true }}
	FConvertExc    = Flag{"ConvertException", func(o *conv.Options) { o.ConvertException = true }}
	FWriteRequire  = Flag{"WriteRequireField", func(o *conv.Options) { o.WriteRequireField = true }}
	FWriteDefault  = Flag{"WriteDefaultField", func(o *conv.Options) { o.WriteDefaultField = true }}
	FWriteOptional = Flag{"WriteOptionalField", func(o *conv.Options) { o.WriteOptionalField = true }}
)

// OptSet is one combination of flags.
type OptSet struct {
	Name string
	O    conv.Options
	Mask int
}

// Subsets enumerates all 2^k combinations, in order of increasing mask (the empty set first).
func Subsets(flags ...Flag) []OptSet {
	var out []OptSet
	for m := 0; m < 1<<uint(len(flags)); m++ {
		var o conv.Options
		var names []string
		for i, f := range flags {
			if m>>uint(i)&1 == 1 {
				f.Set(&o)
				names = append(names, f.Name)
			}
		}
		n := strings.Join(names, "+")
		if n == "" {
			n = "none"
		}
		out = append(out, OptSet{Name: n, O: o, Mask: m})
	}
	return out
}

// Has reports whether flag i of the Subsets call is in the set.
func (s OptSet) Has(i int) bool { return s.Mask>>uint(i)&1 == 1 }
