package jt

import (
	"bytes"
	"encoding/json"
	"fmt"
	"math"
	"math/big"
	"strconv"

	"verif/ref/tbin"
)

// SelfCheck binds the harness's JSON writer to encoding/json: every spelling of every alphabet string
// unmarshals to that string, every number form denotes the intended number, and rendered trees are valid
// JSON that Parse reads back to the same tree. Runs in the parent; calls no dynamicgo code.
func SelfCheck() error {
	for _, c := range Strings(true) {
		for _, sp := range AllSpells() {
			b := Render(JStr(c.S), sp)
			var got string
			if err := json.Unmarshal(b, &got); err != nil {
				return fmt.Errorf("renderer: %s of %q is not valid JSON: %v (%q)", sp, c.S, err, b)
			}
			if got != string(c.S) {
				return fmt.Errorf("renderer: %s of %q denotes %q", sp, c.S, got)
			}
		}
	}
	for _, t := range []tbin.Type{tbin.BYTE, tbin.I16, tbin.I32, tbin.I64} {
		for _, i := range Ints(t) {
			for f := 0; f < NumForms; f++ {
				l, ok := IntLit(i, f)
				if !ok {
					continue
				}
				if !json.Valid([]byte(l)) {
					return fmt.Errorf("IntLit(%d,%d)=%q is not a JSON number", i, f, l)
				}
				r, ok := new(big.Rat).SetString(l)
				if !ok || r.Cmp(new(big.Rat).SetInt64(i)) != 0 {
					return fmt.Errorf("IntLit(%d,%d)=%q does not denote %d", i, f, l, i)
				}
			}
		}
	}
	for _, x := range Doubles() {
		for _, y := range []float64{x, -x} {
			for f := 0; f < NumForms; f++ {
				l, ok := DblLit(y, f)
				if !ok {
					if f == 0 {
						return fmt.Errorf("DblLit(%v,0) not available", y)
					}
					continue
				}
				if !json.Valid([]byte(l)) {
					return fmt.Errorf("DblLit(%v,%d)=%q is not a JSON number", y, f, l)
				}
				z, err := strconv.ParseFloat(l, 64)
				if err != nil || math.Float64bits(z) != math.Float64bits(y) {
					return fmt.Errorf("DblLit(%v,%d)=%q denotes %v", y, f, l, z)
				}
				// exactness: the literal rounds to y by exact rational comparison with the neighbours
				if err := nearest(l, y); err != nil {
					return err
				}
			}
		}
	}
	// trees
	tree := JObj().Add("a", JArr(JNum("1"), JStr([]byte("x\"y")), JNull(), JBool(true), JArr(), JObj())).Add("é\n", JObj().Add("", JBool(false)))
	for _, sp := range AllSpells() {
		b := Render(tree, sp)
		got, err := Parse(b)
		if err != nil {
			return fmt.Errorf("renderer: tree in %s invalid: %v (%q)", sp, err, b)
		}
		if !bytes.Equal(Render(got, Spell{}), Render(tree, Spell{})) {
			return fmt.Errorf("renderer/parser: tree in %s reads back as %s", sp, Render(got, Spell{}))
		}
	}
	if _, err := Parse([]byte(`{"a":1,}`)); err == nil {
		return fmt.Errorf("Parse accepted malformed JSON")
	}
	if _, err := Parse([]byte(`{"a":1} 2`)); err == nil {
		return fmt.Errorf("Parse accepted trailing data")
	}
	if FirstValueEnd([]byte(` {"a":1} x`)) != 8 || FirstValueEnd([]byte(`{"a":`)) != -1 {
		return fmt.Errorf("FirstValueEnd broken")
	}
	return nil
}

// nearest checks with exact rational arithmetic that y is a double nearest to the number lit denotes.
func nearest(lit string, y float64) error {
	r, ok := new(big.Rat).SetString(lit)
	if !ok {
		return fmt.Errorf("literal %q not rational", lit)
	}
	ry := new(big.Rat)
	if ry.SetFloat64(y) == nil {
		return fmt.Errorf("non-finite")
	}
	d := new(big.Rat).Sub(r, ry)
	d.Abs(d)
	for _, nb := range []float64{math.Nextafter(y, math.Inf(1)), math.Nextafter(y, math.Inf(-1))} {
		if math.IsInf(nb, 0) {
			continue
		}
		rn, _ := new(big.Rat).SetString(strconv.FormatFloat(nb, 'e', -1, 64))
		rn.SetFloat64(nb)
		d2 := new(big.Rat).Sub(r, rn)
		d2.Abs(d2)
		if d2.Cmp(d) < 0 {
			return fmt.Errorf("literal %q is nearer to %v than to %v", lit, nb, y)
		}
	}
	return nil
}
