package jt

import (
	"bytes"
	"encoding/base64"
	"fmt"
	"math"
	"math/big"
	"strconv"
	"unicode/utf8"

	"verif/ref/tbin"
)

// EvalOpt are the value-affecting options of Thrift->JSON as the property names them.
type EvalOpt struct {
	Int642String bool
	ByteAsUint8  bool
	NoBase64     bool
	ValueMapping bool // api.js_conv fields are emitted in their string form
}

// Mismatch describes why a JSON tree does not denote a model value.
type Mismatch struct {
	Trigger string // type class of the node that differs (stable, for signatures)
	Outcome string // kind / value / members / length
	Detail  string
}

func mm(tr, out, f string, a ...interface{}) *Mismatch {
	return &Mismatch{Trigger: tr, Outcome: out, Detail: fmt.Sprintf(f, a...)}
}

func numEqualsInt(lit string, i int64) bool {
	r, ok := new(big.Rat).SetString(lit)
	return ok && r.Cmp(new(big.Rat).SetInt64(i)) == 0
}

func short(b []byte) string {
	if len(b) > 60 {
		return fmt.Sprintf("%q..(%d bytes)", b[:60], len(b))
	}
	return fmt.Sprintf("%q", b)
}

func intClass(t tbin.Type) string { return t.String() }

// matchInt: an integer emitted either as a JSON number or (quoted=true) as a decimal string.
func matchInt(j *J, want int64, quoted bool, tr string) *Mismatch {
	if quoted {
		if j.K != 's' {
			return mm(tr, "kind", "want a string holding %d, got kind %c %s", want, j.K, j.Lit)
		}
		if string(j.S) != strconv.FormatInt(want, 10) {
			return mm(tr, "value", "want \"%d\", got %s", want, short(j.S))
		}
		return nil
	}
	if j.K != '#' {
		return mm(tr, "kind", "want number %d, got kind %c", want, j.K)
	}
	if !numEqualsInt(j.Lit, want) {
		return mm(tr, "value", "want %d, got %s", want, j.Lit)
	}
	return nil
}

func matchDouble(j *J, want float64, quoted bool, tr string) *Mismatch {
	lit := j.Lit
	if quoted {
		if j.K != 's' {
			return mm(tr, "kind", "want a string holding %v, got kind %c", want, j.K)
		}
		lit = string(j.S)
	} else if j.K != '#' {
		return mm(tr, "kind", "want number %v, got kind %c", want, j.K)
	}
	got, err := strconv.ParseFloat(lit, 64)
	if err != nil || got != want {
		return mm(tr, "value", "want %s (bits %016x), got %s", strconv.FormatFloat(want, 'g', -1, 64), math.Float64bits(want), lit)
	}
	return nil
}

func matchString(j *J, want []byte, tr string) *Mismatch {
	if j.K != 's' {
		return mm(tr, "kind", "want string, got kind %c", j.K)
	}
	if utf8.Valid(want) && !bytes.Equal(j.S, want) {
		return mm(tr, "value", "want %s, got %s", short(want), short(j.S))
	}
	return nil
}

func byteVal(i int64, u8 bool) int64 {
	if u8 {
		return int64(uint8(i))
	}
	return int64(int8(i))
}

// Match checks that JSON tree j denotes model value v of shape s under the emission options.
// Struct members: exactly the aliases of the declared fields present in v (fields of v whose id the shape
// does not declare are unknown fields and must be absent); lists, sets and maps in wire order.
func (p *Prog) Match(j *J, v *tbin.Val, s *tbin.Shape, e EvalOpt) *Mismatch {
	switch v.T {
	case tbin.BOOL:
		if (j.K != 't' && j.K != 'f') || (j.K == 't') != v.B {
			return mm("bool", "value", "want %v, got kind %c", v.B, j.K)
		}
	case tbin.BYTE:
		return matchInt(j, byteVal(v.I, e.ByteAsUint8), false, "byte")
	case tbin.I16, tbin.I32:
		return matchInt(j, v.I, false, intClass(v.T))
	case tbin.I64:
		return matchInt(j, v.I, e.Int642String, "i64")
	case tbin.DOUBLE:
		return matchDouble(j, v.F, false, "double")
	case tbin.STRING:
		if s.Binary && !e.NoBase64 {
			if j.K != 's' || string(j.S) != base64.StdEncoding.EncodeToString(v.S) {
				return mm("binary", "value", "want base64 %q, got kind %c %s", base64.StdEncoding.EncodeToString(v.S), j.K, short(j.S))
			}
			return nil
		}
		tr := "string"
		if s.Binary {
			tr = "binary-raw"
		}
		return matchString(j, v.S, tr)
	case tbin.LIST, tbin.SET:
		if j.K != 'a' {
			return mm("list", "kind", "want array, got kind %c", j.K)
		}
		if len(j.A) != len(v.L) {
			return mm("list", "length", "want %d elements, got %d", len(v.L), len(j.A))
		}
		for i := range v.L {
			if m := p.Match(j.A[i], v.L[i], s.Elem, e); m != nil {
				return m
			}
		}
	case tbin.MAP:
		if j.K != 'o' {
			return mm("map", "kind", "want object, got kind %c", j.K)
		}
		if len(j.A) != len(v.L) {
			return mm("map", "length", "want %d entries, got %d", len(v.L), len(j.A))
		}
		for i := range v.L {
			k := v.K[i]
			var want []byte
			switch k.T {
			case tbin.STRING:
				want = k.S
			case tbin.BYTE:
				want = []byte(strconv.FormatInt(byteVal(k.I, e.ByteAsUint8), 10))
			case tbin.I16, tbin.I32, tbin.I64:
				want = []byte(strconv.FormatInt(k.I, 10))
			default:
				return mm("mapkey-"+k.T.String(), "unsupported", "no documented JSON form for this key type")
			}
			if utf8.Valid(want) && !bytes.Equal(j.Keys[i], want) {
				return mm("mapkey-"+k.T.String(), "value", "entry %d: want key %s, got %s", i, short(want), short(j.Keys[i]))
			}
			if m := p.Match(j.A[i], v.L[i], s.Elem, e); m != nil {
				return m
			}
		}
	case tbin.STRUCT:
		if j.K != 'o' {
			return mm("struct", "kind", "want object, got kind %c", j.K)
		}
		used := make([]bool, len(j.A))
		n := 0
		for _, f := range v.Fs {
			i := FieldIndex(s, f.ID)
			if i < 0 {
				continue // unknown field: dropped
			}
			n++
			key := p.Alias(s, i)
			at := -1
			for k := range j.A {
				if !used[k] && string(j.Keys[k]) == key {
					at = k
					break
				}
			}
			if at < 0 {
				return mm("struct", "members", "member %q of present field %d is missing (got keys %s)", key, f.ID, keysOf(j))
			}
			used[at] = true
			if m := p.matchField(j.A[at], f.V, s, i, e); m != nil {
				return m
			}
		}
		if n != len(j.A) {
			return mm("struct", "members", "%d present declared fields but %d members (keys %s)", n, len(j.A), keysOf(j))
		}
	}
	return nil
}

func keysOf(j *J) string {
	var b bytes.Buffer
	for i, k := range j.Keys {
		if i > 0 {
			b.WriteByte(',')
		}
		fmt.Fprintf(&b, "%q", k)
	}
	return b.String()
}

// matchField handles api.js_conv emission (numbers as strings; lists of numbers as lists of strings).
func (p *Prog) matchField(j *J, v *tbin.Val, s *tbin.Shape, i int, e EvalOpt) *Mismatch {
	fs := s.Fields[i].S
	if !(p.FX(s, i).JSConv && e.ValueMapping) {
		return p.Match(j, v, fs, e)
	}
	one := func(j *J, v *tbin.Val) *Mismatch {
		switch v.T {
		case tbin.BYTE:
			return matchInt(j, byteVal(v.I, e.ByteAsUint8), true, "jsconv-byte")
		case tbin.I16, tbin.I32, tbin.I64:
			return matchInt(j, v.I, true, "jsconv-"+v.T.String())
		case tbin.DOUBLE:
			return matchDouble(j, v.F, true, "jsconv-double")
		case tbin.STRING:
			return matchString(j, v.S, "jsconv-string")
		}
		return mm("jsconv-"+v.T.String(), "unsupported", "api.js_conv has no documented form for this type")
	}
	if v.T == tbin.LIST {
		if j.K != 'a' || len(j.A) != len(v.L) {
			return mm("jsconv-list", "length", "want array of %d, got kind %c len %d", len(v.L), j.K, len(j.A))
		}
		for k := range v.L {
			if m := one(j.A[k], v.L[k]); m != nil {
				return m
			}
		}
		return nil
	}
	return one(j, v)
}
