package jt

import (
	"math"
	"strings"

	"verif/ref/tbin"
)

// Ints is the boundary alphabet of an integer type (all in range).
func Ints(t tbin.Type) []int64 {
	switch t {
	case tbin.BYTE:
		return []int64{0, 1, -1, 7, 100, 127, -127, -128}
	case tbin.I16:
		return []int64{0, 1, -1, 127, 128, 255, 256, -129, 32767, -32768, 1000}
	case tbin.I32:
		return []int64{0, 1, -1, 32768, 65535, 65536, 1 << 24, math.MaxInt32, math.MinInt32, -65537, 1000000007}
	case tbin.I64:
		return []int64{0, 1, -1, 1 << 31, -(1 << 31), 1 << 32, 1<<53 - 1, 1 << 53, 1<<53 + 1, -(1<<53 + 1), math.MaxInt64, math.MinInt64, math.MaxInt64 - 1, math.MinInt64 + 1, 999999999999999999, 1000000000000000000, -1000000000000000001}
	}
	return nil
}

// Doubles is the finite double alphabet (every class named by the properties except NaN/Inf).
func Doubles() []float64 {
	return []float64{0, 1, -1.5, 0.1, 0.5, 100, 1e21, 1e-7, 1e20, 123456789.125, 5e-324, math.MaxFloat64, -math.MaxFloat64, 2.2250738585072014e-308, 2.225073858507201e-308,
		1 << 53, 1<<53 + 2, 9007199254740993, 0.30000000000000004, 1e22, 1e23, 8.41e21, 3.141592653589793, -2.718281828459045e-10, 4.35, 1e-5, 1e-6, 123456789012345680000, 0.000001234,
		// integral doubles on and next to the integer type boundaries (an integer fast path must not wrap)
		1 << 31, 1<<31 - 1, 1 << 32, 1 << 62, 1 << 63, 9223372036854774784, 9223372036854777856, 1 << 64, 18446744073709549568, 1e19}
}

// NonFinite are the double classes with no JSON spelling.
func NonFinite() []float64 {
	return []float64{math.NaN(), math.Inf(1), math.Inf(-1), math.Float64frombits(0x7ff0000000000001), math.Float64frombits(0xfff8000000000000)}
}

// StrClass is one string of the alphabet with the class name used in signatures.
type StrClass struct {
	Class string
	S     []byte
	Valid bool // valid UTF-8
}

func rep(s string, n int) string { return strings.Repeat(s, n) }

// Strings is the string alphabet: empty, ASCII, multi-byte, quotes/backslashes/controls, U+2028/9,
// non-BMP, html-sensitive, lengths around SIMD block sizes with a special rune at the boundary.
func Strings(long bool) []StrClass {
	out := []StrClass{
		{"empty", []byte(""), true},
		{"ascii", []byte("a"), true},
		{"ascii", []byte("hello world"), true},
		{"utf8-2", []byte("é"), true},
		{"utf8-3", []byte("中文"), true},
		{"utf8-4", []byte("😀"), true},
		{"utf8-4", []byte("a😀b\U0010ffff"), true},
		{"quote", []byte(`"`), true},
		{"quote", []byte(`a"b\c`), true},
		{"quote", []byte(`\\""\`), true},
		{"control", []byte("\n"), true},
		{"control", []byte("\x00"), true},
		{"control", []byte("a\x01\x1f\t\r\n\b\fz"), true},
		{"del", []byte("\x7f"), true},
		{"slash", []byte("a/b</script>&"), true},
		{"u2028", []byte("\u2028"), true},
		{"u2028", []byte("x\u2028y\u2029z"), true},
		{"bom", []byte("\ufeffx\ufffd"), true},
		{"numeric", []byte("123"), true},
		{"jsonish", []byte(`{"a":[1,null]}`), true},
		{"space", []byte("  \t "), true},
	}
	// every control character on its own, between two letters (a short string with ONE byte that needs escaping:
	// tables of "plain" bytes are compared at every boundary, not only at 0x00 / 0x01 / 0x1f together)
	for c := 1; c < 0x20; c++ {
		out = append(out, StrClass{"control-single", []byte("k" + string(rune(c)) + "v"), true})
	}
	out = append(out, StrClass{"control-single", []byte("k\x7fv"), true}, StrClass{"control-single", []byte("k\x20v"), true})
	lens := []int{7, 8, 9, 15, 16, 17, 31, 32, 33, 63, 64, 65}
	if long {
		lens = append(lens, 127, 128, 129, 255, 256, 257, 4095, 4096, 4097)
	}
	for _, n := range lens {
		out = append(out, StrClass{"len-plain", []byte(rep("x", n)), true})
		// special char as the last byte, at the block boundary, and first
		for _, sp := range []string{`"`, "\n", `\`} {
			out = append(out, StrClass{"len-special", []byte(rep("y", n-1) + sp), true})
			if n >= 16 {
				k := n &^ 15
				if k == n {
					k = n - 16
				}
				if k > 0 {
					out = append(out, StrClass{"len-special", []byte(rep("y", k-1) + sp + rep("z", n-k)), true})
				}
			}
		}
		// all control characters: every byte expands six-fold when quoted (output-buffer growth inside the quoter)
		out = append(out, StrClass{"len-control", []byte(rep("\x01", n)), true})
		out = append(out, StrClass{"len-control", []byte(rep("ab\x1f\"", (n+3)/4)[:n]), true})
		// a multi-byte rune straddling the end
		if n >= 3 {
			out = append(out, StrClass{"len-utf8", []byte(rep("w", n-3) + "€"), true})
			out = append(out, StrClass{"len-utf8", []byte(rep("w", n-2) + "é"), true})
		}
	}
	return out
}

// InvalidUTF8 are byte strings that are not valid UTF-8 (C03: output validity only).
func InvalidUTF8() []StrClass {
	return []StrClass{
		{"badutf8", []byte("\xff"), false},
		{"badutf8", []byte("a\xc0\xafb"), false},
		{"badutf8", []byte("\xed\xa0\x80"), false}, // surrogate half encoded
		{"badutf8", []byte("ok\xe2\x82"), false},   // truncated 3-byte rune
		{"badutf8", []byte(rep("q", 15) + "\xf0\x9f"), false},
		{"badutf8", []byte("\"\xfe\\"), false},
	}
}

// Binaries is the binary alphabet (lengths 0..5 cover all base64 padding classes, plus block sizes).
func Binaries(long bool) [][]byte {
	out := [][]byte{{}, {0}, {0xff}, {0, 1}, {0xfb, 0xff, 0xfe}, {1, 2, 3, 4}, {0xff, 0xfe, 0xfd, 0xfc, 0xfb}, []byte("hello world!"), []byte("\"\\\n")}
	lens := []int{15, 16, 17, 23, 24, 25, 31, 32, 33, 47, 48, 49}
	if long {
		lens = append(lens, 95, 96, 97, 3071, 3072, 3073, 4095, 4096, 4097)
	}
	for _, n := range lens {
		b := make([]byte, n)
		for i := range b {
			b[i] = byte(i*37 + 11)
		}
		out = append(out, b)
	}
	return out
}

// ScalarVals is the full value alphabet of a scalar shape.
func ScalarVals(s *tbin.Shape, long bool) []*tbin.Val {
	var out []*tbin.Val
	switch s.T {
	case tbin.BOOL:
		return []*tbin.Val{tbin.Bool(false), tbin.Bool(true)}
	case tbin.BYTE, tbin.I16, tbin.I32, tbin.I64:
		for _, i := range Ints(s.T) {
			out = append(out, &tbin.Val{T: s.T, I: i})
		}
	case tbin.DOUBLE:
		for _, f := range Doubles() {
			out = append(out, tbin.Double(f))
			if f != 0 {
				out = append(out, tbin.Double(-f))
			}
		}
	case tbin.STRING:
		if s.Binary {
			for _, b := range Binaries(long) {
				out = append(out, tbin.Bin(b))
			}
		} else {
			for _, c := range Strings(long) {
				out = append(out, tbin.Bin(c.S))
			}
		}
	}
	return out
}

// SetLeaves replaces, in a clone of v, the k-th scalar leaf of type t (pre-order) by w; returns nil if there
// is no such leaf. Used to plant alphabet values at every position of a shaped value.
func SetLeaf(v *tbin.Val, t tbin.Type, k int, w *tbin.Val) *tbin.Val {
	c := tbin.Clone(v)
	n := 0
	done := false
	var walk func(x *tbin.Val)
	walk = func(x *tbin.Val) {
		if done {
			return
		}
		switch x.T {
		case tbin.LIST, tbin.SET, tbin.MAP:
			for i := range x.L {
				if x.T == tbin.MAP {
					walk(x.K[i])
				}
				walk(x.L[i])
			}
		case tbin.STRUCT:
			for i := range x.Fs {
				walk(x.Fs[i].V)
			}
		default:
			if x.T == t {
				if n == k {
					*x = *tbin.Clone(w)
					done = true
				}
				n++
			}
		}
	}
	walk(c)
	if !done {
		return nil
	}
	return c
}
