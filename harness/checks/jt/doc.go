package jt

import (
	"encoding/base64"
	"math"
	"strconv"
	"strings"

	"verif/ref/tbin"
)

// DocOpt selects how a model value is written down as a JSON tree.
type DocOpt struct {
	NumForm  int  // number spelling family, see IntLit / DblLit (0 = plain)
	QuoteNum bool // integers and doubles as JSON strings (the String2Int64 domain)
	RawBin   bool // binary as the string itself instead of base64 (the NoBase64Binary domain)
	ByName   bool // struct keys = field names instead of aliases
	JSConv   int  // api.js_conv fields: 0 natural kinds, 1 numbers as strings and numeric strings as numbers
}

const NumForms = 6

// IntLit spells integer i in form f; ok=false if the form is not used for that value
// (non-plain forms only for |i| <= 2^53 so that every reader agrees on the denoted integer).
func IntLit(i int64, f int) (string, bool) {
	d := strconv.FormatInt(i, 10)
	if f == 0 {
		return d, true
	}
	if i > 1<<53 || i < -(1<<53) {
		return "", false
	}
	switch f {
	case 1:
		return d + ".0", true
	case 2:
		return d + "e0", true
	case 3:
		if i == 0 {
			return "0E-1", true
		}
		return d + "0E-1", true
	case 4:
		return d + "E+0", true
	case 5:
		return d + ".000e+00", true
	}
	return "", false
}

// DblLit spells a finite double in form f. Every form parses back (strconv.ParseFloat) to the same bits.
func DblLit(x float64, f int) (string, bool) {
	if math.IsNaN(x) || math.IsInf(x, 0) {
		return "", false
	}
	var s string
	switch f {
	case 0:
		s = strconv.FormatFloat(x, 'g', -1, 64)
	case 1:
		s = strconv.FormatFloat(x, 'e', -1, 64)
	case 2:
		s = strconv.FormatFloat(x, 'E', -1, 64)
	case 3:
		s = strconv.FormatFloat(x, 'f', -1, 64)
	case 4:
		s = strconv.FormatFloat(x, 'e', 16, 64)
	case 5:
		s = strings.Replace(strconv.FormatFloat(x, 'g', -1, 64), "e+", "e", 1)
	default:
		return "", false
	}
	if y, err := strconv.ParseFloat(s, 64); err != nil || math.Float64bits(y) != math.Float64bits(x) {
		return "", false
	}
	return s, true
}

func isNumLit(s []byte) bool {
	if len(s) == 0 || len(s) > 20 {
		return false
	}
	_, err := strconv.ParseFloat(string(s), 64)
	if err != nil {
		return false
	}
	// JSON number grammar subset: optional '-', digits, optional fraction
	i := 0
	if s[0] == '-' {
		i++
	}
	if i >= len(s) || s[i] < '0' || s[i] > '9' || (s[i] == '0' && i+1 < len(s) && s[i+1] != '.') {
		return false
	}
	for ; i < len(s); i++ {
		if (s[i] < '0' || s[i] > '9') && s[i] != '.' {
			return false
		}
	}
	return s[len(s)-1] != '.' && strings.Count(string(s), ".") <= 1
}

// Scalar writes a scalar model value. ok=false when the value has no spelling under o.
func Scalar(v *tbin.Val, s *tbin.Shape, o DocOpt) (*J, bool) {
	switch v.T {
	case tbin.BOOL:
		return JBool(v.B), true
	case tbin.BYTE, tbin.I16, tbin.I32, tbin.I64:
		l, ok := IntLit(v.I, o.NumForm)
		if !ok {
			return nil, false
		}
		if o.QuoteNum {
			return JStr([]byte(l)), true
		}
		return JNum(l), true
	case tbin.DOUBLE:
		l, ok := DblLit(v.F, o.NumForm)
		if !ok {
			return nil, false
		}
		if o.QuoteNum {
			return JStr([]byte(l)), true
		}
		return JNum(l), true
	case tbin.STRING:
		if s.Binary && !o.RawBin {
			return JStr([]byte(base64.StdEncoding.EncodeToString(v.S))), true
		}
		return JStr(v.S), true
	}
	return nil, false
}

// KeyText is the JSON object key denoting a map key value.
func KeyText(k *tbin.Val) ([]byte, bool) {
	switch k.T {
	case tbin.STRING:
		return k.S, true
	case tbin.BYTE, tbin.I16, tbin.I32, tbin.I64:
		return []byte(strconv.FormatInt(k.I, 10)), true
	case tbin.DOUBLE:
		l, ok := DblLit(k.F, 0)
		return []byte(l), ok
	}
	return nil, false
}

// Doc writes a model value of shape s as a JSON tree. ok=false when some part has no spelling under o
// (struct map keys, non-finite doubles, a number form not applicable to a value).
func (p *Prog) Doc(v *tbin.Val, s *tbin.Shape, o DocOpt) (*J, bool) {
	switch v.T {
	case tbin.LIST, tbin.SET:
		j := JArr()
		for _, e := range v.L {
			x, ok := p.Doc(e, s.Elem, o)
			if !ok {
				return nil, false
			}
			j.A = append(j.A, x)
		}
		return j, true
	case tbin.MAP:
		j := JObj()
		for i := range v.L {
			k, ok := KeyText(v.K[i])
			if !ok {
				return nil, false
			}
			x, ok := p.Doc(v.L[i], s.Elem, o)
			if !ok {
				return nil, false
			}
			j.Keys = append(j.Keys, k)
			j.A = append(j.A, x)
		}
		return j, true
	case tbin.STRUCT:
		j := JObj()
		for _, f := range v.Fs {
			i := FieldIndex(s, f.ID)
			if i < 0 {
				return nil, false
			}
			x, ok := p.FieldDoc(f.V, s, i, o)
			if !ok {
				return nil, false
			}
			j.Keys = append(j.Keys, []byte(p.KeyOf(s, i, o)))
			j.A = append(j.A, x)
		}
		return j, true
	}
	return Scalar(v, s, o)
}

// KeyOf is the key spelling of field i under o.
func (p *Prog) KeyOf(s *tbin.Shape, i int, o DocOpt) string {
	if o.ByName {
		return s.Fields[i].FName()
	}
	return p.Alias(s, i)
}

// FieldDoc writes the value of field i of struct shape s (js_conv aware).
func (p *Prog) FieldDoc(v *tbin.Val, s *tbin.Shape, i int, o DocOpt) (*J, bool) {
	fs := s.Fields[i].S
	if p.FX(s, i).JSConv && o.JSConv == 1 {
		switch v.T {
		case tbin.BYTE, tbin.I16, tbin.I32, tbin.I64, tbin.DOUBLE:
			o2 := o
			o2.QuoteNum = true
			return Scalar(v, fs, o2)
		case tbin.STRING:
			if !fs.Binary && isNumLit(v.S) {
				return JNum(string(v.S)), true
			}
		}
	}
	return p.Doc(v, fs, o)
}

// HasNonFinite reports whether a value contains NaN or +-Inf.
func HasNonFinite(v *tbin.Val) bool {
	if v.T == tbin.DOUBLE && (math.IsNaN(v.F) || math.IsInf(v.F, 0)) {
		return true
	}
	for _, e := range v.L {
		if HasNonFinite(e) {
			return true
		}
	}
	for _, e := range v.K {
		if HasNonFinite(e) {
			return true
		}
	}
	for _, f := range v.Fs {
		if HasNonFinite(f.V) {
			return true
		}
	}
	return false
}
