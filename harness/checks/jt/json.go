package jt

import (
	"bytes"
	"encoding/json"
	"fmt"
	"io"
	"unicode/utf8"
)

// J is an ordered JSON tree. Numbers keep their literal spelling; strings hold the denoted bytes.
type J struct {
	K    byte // 'n' null, 't' true, 'f' false, '#' number, 's' string, 'a' array, 'o' object
	Lit  string
	S    []byte
	A    []*J     // array elements / object member values
	Keys [][]byte // object member keys (parallel to A)
}

func JNull() *J          { return &J{K: 'n'} }
func JBool(b bool) *J    { return &J{K: map[bool]byte{true: 't', false: 'f'}[b]} }
func JNum(lit string) *J { return &J{K: '#', Lit: lit} }
func JStr(s []byte) *J   { return &J{K: 's', S: s} }
func JArr(e ...*J) *J    { return &J{K: 'a', A: e} }
func JObj() *J           { return &J{K: 'o'} }
func (j *J) Add(k string, v *J) *J {
	j.Keys = append(j.Keys, []byte(k))
	j.A = append(j.A, v)
	return j
}

// Spell is one spelling of a JSON text: whitespace at every token gap and the escape form of strings.
type Spell struct {
	WS  int // 0 compact, 1 one space at every gap, 2 rotating \t \n \r space runs, 3 newline+indent
	Esc int // 0 minimal, 1 short escapes (\n \t \/ ...), 2 \uxxxx for every char (lower hex), 3 \uXXXX (upper hex), 4 \u for non-ASCII only
}

func (s Spell) String() string { return fmt.Sprintf("ws%d,esc%d", s.WS, s.Esc) }

// AllSpells is the spelling alphabet (4 whitespace modes x 5 escape modes).
func AllSpells() []Spell {
	var out []Spell
	for ws := 0; ws < 4; ws++ {
		for esc := 0; esc < 5; esc++ {
			out = append(out, Spell{ws, esc})
		}
	}
	return out
}

type renderer struct {
	sp  Spell
	buf []byte
	n   int
	ind int
}

func (r *renderer) gap() {
	switch r.sp.WS {
	case 1:
		r.buf = append(r.buf, ' ')
	case 2:
		runs := []string{"\t", "\n", "\r", " ", " \t", "\r\n", "  "}
		r.buf = append(r.buf, runs[r.n%len(runs)]...)
		r.n++
	case 3:
		r.buf = append(r.buf, '\n')
		for i := 0; i < r.ind; i++ {
			r.buf = append(r.buf, ' ', ' ')
		}
	}
}

const hexL = "0123456789abcdef"
const hexU = "0123456789ABCDEF"

func (r *renderer) u16(c uint16) {
	h := hexL
	if r.sp.Esc == 3 {
		h = hexU
	}
	r.buf = append(r.buf, '\\', 'u', h[c>>12], h[c>>8&15], h[c>>4&15], h[c&15])
}

// str writes s as a JSON string. Invalid UTF-8 bytes are copied raw (only used by checks that say so).
func (r *renderer) str(s []byte) {
	r.buf = append(r.buf, '"')
	for i := 0; i < len(s); {
		c, sz := utf8.DecodeRune(s[i:])
		if c == utf8.RuneError && sz <= 1 {
			r.buf = append(r.buf, s[i])
			i++
			continue
		}
		esc := r.sp.Esc
		switch {
		case esc == 2 || esc == 3 || (esc == 4 && c >= 0x80):
			if c >= 0x10000 {
				c2 := c - 0x10000
				r.u16(uint16(0xd800 + c2>>10))
				r.u16(uint16(0xdc00 + c2&0x3ff))
			} else {
				r.u16(uint16(c))
			}
		case c == '"':
			r.buf = append(r.buf, '\\', '"')
		case c == '\\':
			r.buf = append(r.buf, '\\', '\\')
		case c < 0x20:
			short := map[rune]byte{'\b': 'b', '\f': 'f', '\n': 'n', '\r': 'r', '\t': 't'}
			if b, ok := short[c]; ok && esc == 1 {
				r.buf = append(r.buf, '\\', b)
			} else {
				r.u16(uint16(c))
			}
		case c == '/' && esc == 1:
			r.buf = append(r.buf, '\\', '/')
		default:
			r.buf = append(r.buf, s[i:i+sz]...)
		}
		i += sz
	}
	r.buf = append(r.buf, '"')
}

func (r *renderer) val(j *J) {
	switch j.K {
	case 'n':
		r.buf = append(r.buf, "null"...)
	case 't':
		r.buf = append(r.buf, "true"...)
	case 'f':
		r.buf = append(r.buf, "false"...)
	case '#':
		r.buf = append(r.buf, j.Lit...)
	case 's':
		r.str(j.S)
	case 'a':
		r.buf = append(r.buf, '[')
		r.ind++
		for i, e := range j.A {
			if i > 0 {
				r.buf = append(r.buf, ',')
			}
			r.gap()
			r.val(e)
			if r.sp.WS != 3 {
				r.gap()
			}
		}
		r.ind--
		if len(j.A) == 0 || r.sp.WS == 3 {
			r.gap()
		}
		r.buf = append(r.buf, ']')
	case 'o':
		r.buf = append(r.buf, '{')
		r.ind++
		for i, e := range j.A {
			if i > 0 {
				r.buf = append(r.buf, ',')
			}
			r.gap()
			r.str(j.Keys[i])
			if r.sp.WS != 3 {
				r.gap()
			}
			r.buf = append(r.buf, ':')
			if r.sp.WS != 0 {
				r.buf = append(r.buf, ' ')
			}
			r.val(e)
			if r.sp.WS != 3 {
				r.gap()
			}
		}
		r.ind--
		if len(j.A) == 0 || r.sp.WS == 3 {
			r.gap()
		}
		r.buf = append(r.buf, '}')
	}
}

// Render spells the tree. Leading/trailing whitespace around the top-level value is added for WS>0.
func Render(j *J, sp Spell) []byte {
	r := &renderer{sp: sp}
	if sp.WS == 2 {
		r.gap()
	}
	r.val(j)
	if sp.WS == 2 {
		r.gap()
	}
	return r.buf
}

// Tokens renders the tree as a token list (compact spelling of every token) for the malformed-document
// family: a document is the tokens joined by one space, so deleting/duplicating one never merges two.
func Tokens(j *J) []string {
	var out []string
	var walk func(j *J)
	walk = func(j *J) {
		switch j.K {
		case 'a':
			out = append(out, "[")
			for i, e := range j.A {
				if i > 0 {
					out = append(out, ",")
				}
				walk(e)
			}
			out = append(out, "]")
		case 'o':
			out = append(out, "{")
			for i, e := range j.A {
				if i > 0 {
					out = append(out, ",")
				}
				out = append(out, string(Render(JStr(j.Keys[i]), Spell{})))
				out = append(out, ":")
				walk(e)
			}
			out = append(out, "}")
		default:
			out = append(out, string(Render(j, Spell{})))
		}
	}
	walk(j)
	return out
}

// Parse is the ordered JSON parser of the oracle side: validity by encoding/json (json.Valid), the tree
// through json.Decoder tokens with UseNumber (member order and duplicates preserved).
// Strings with invalid UTF-8 come back with U+FFFD (encoding/json's behaviour); callers that care compare
// only valid-UTF-8 expectations.
func Parse(data []byte) (*J, error) {
	if !json.Valid(data) {
		var x interface{}
		err := json.Unmarshal(data, &x)
		if err == nil {
			err = fmt.Errorf("invalid JSON")
		}
		return nil, err
	}
	dec := json.NewDecoder(bytes.NewReader(data))
	dec.UseNumber()
	j, err := parseVal(dec)
	if err != nil {
		return nil, err
	}
	if _, err := dec.Token(); err != io.EOF {
		return nil, fmt.Errorf("trailing data after top-level value")
	}
	return j, nil
}

func parseVal(dec *json.Decoder) (*J, error) {
	t, err := dec.Token()
	if err != nil {
		return nil, err
	}
	return parseTok(dec, t)
}

func parseTok(dec *json.Decoder, t json.Token) (*J, error) {
	switch x := t.(type) {
	case nil:
		return JNull(), nil
	case bool:
		return JBool(x), nil
	case json.Number:
		return JNum(string(x)), nil
	case string:
		return JStr([]byte(x)), nil
	case json.Delim:
		switch x {
		case '[':
			j := JArr()
			for dec.More() {
				e, err := parseVal(dec)
				if err != nil {
					return nil, err
				}
				j.A = append(j.A, e)
			}
			if _, err := dec.Token(); err != nil {
				return nil, err
			}
			return j, nil
		case '{':
			j := JObj()
			for dec.More() {
				kt, err := dec.Token()
				if err != nil {
					return nil, err
				}
				k, ok := kt.(string)
				if !ok {
					return nil, fmt.Errorf("non-string key")
				}
				e, err := parseVal(dec)
				if err != nil {
					return nil, err
				}
				j.Keys = append(j.Keys, []byte(k))
				j.A = append(j.A, e)
			}
			if _, err := dec.Token(); err != nil {
				return nil, err
			}
			return j, nil
		}
	}
	return nil, fmt.Errorf("unexpected token %v", t)
}

// FirstValueEnd returns the offset just after the first complete JSON value of data (leading whitespace
// allowed), or -1 if data does not start with a complete valid value. Used to tell "malformed inside the
// top-level value" from "garbage after it".
func FirstValueEnd(data []byte) int {
	dec := json.NewDecoder(bytes.NewReader(data))
	dec.UseNumber()
	var raw json.RawMessage
	if err := dec.Decode(&raw); err != nil {
		return -1
	}
	return int(dec.InputOffset())
}
