// Package jt holds what the JSON<->Thrift converter checks (C02, C03, C13, C16) share:
// IDL programs (text + tbin.Shape + per-field extras), value alphabets, a JSON tree with a
// renderer in many spellings, document builders, an ordered JSON parser/evaluator built on
// encoding/json (UseNumber) and option enumeration. Nothing in here calls the converters.
package jt

import (
	"context"
	"fmt"
	"sort"
	"strings"
	"sync"

	"github.com/cloudwego/dynamicgo/meta"
	"github.com/cloudwego/dynamicgo/thrift"
	"github.com/cloudwego/dynamicgo/thrift/annotation"

	"verif/ref/tbin"
)

// FX are the per-field extras an IDL can declare on top of tbin.SField (id, name, type, requiredness).
type FX struct {
	Alias  string    // JSON key declared through an annotation ("" = none: the key is the field name)
	Ann    []string  // annotation texts as written in the IDL, e.g. `api.key = "x"`
	Def    *tbin.Val // the declared default as dynamicgo documents to parse it (nil = none / not a scalar literal)
	DefLit string    // literal text of the default in the IDL ("" = none)
	JSConv bool      // api.js_conv = "true"
	Base   int       // 1 = request base (base.Base), 2 = response base (base.BaseResp)
}

// Prog is one generated IDL program: the root type plus the extras of every struct field.
type Prog struct {
	Name      string
	Root      *tbin.Shape
	fx        map[*tbin.Shape][]FX
	structAnn map[*tbin.Shape][]string
	idl       string
	useBase   bool
	raw       bool
	// Typedef: every scalar type is reached through a typedef alias (`typedef binary T_binary`), the way
	// real IDLs name their types; descriptors must not depend on the spelling of the type name.
	Typedef bool
	// Split: the struct types below each field of the root struct are declared in a file of their own
	// (inc<i>.thrift, included by the main file), with type names that restart in every file (N0, N1, ...),
	// so that the same unqualified name denotes different types in different files.
	Split bool
	incs  map[string]string
}

// Source is the whole program text: the main file followed by the included files of a split program.
func (p *Prog) Source() string {
	src := p.IDL()
	var ks []string
	for k := range p.incs {
		ks = append(ks, k)
	}
	sort.Strings(ks)
	for _, k := range ks {
		src += "// ---- " + k + "\n" + p.incs[k]
	}
	return src
}

// RawProg is a program given as hand-written IDL text (recursive types cannot be tbin.Shapes).
// Root is only a placeholder telling the root's thrift type.
func RawProg(name, idl string, rootT tbin.Type) *Prog {
	p := NewProg(name, &tbin.Shape{T: rootT})
	p.idl, p.raw = idl, true
	return p
}

func NewProg(name string, root *tbin.Shape) *Prog {
	return &Prog{Name: name, Root: root, fx: map[*tbin.Shape][]FX{}, structAnn: map[*tbin.Shape][]string{}}
}

// Plain wraps a shape without extras.
func Plain(root *tbin.Shape) *Prog { return NewProg(root.String(), root) }

// Set declares the extras of field i (index into st.Fields).
func (p *Prog) Set(st *tbin.Shape, i int, x FX) *Prog {
	if p.fx[st] == nil {
		p.fx[st] = make([]FX, len(st.Fields))
	}
	p.fx[st][i] = x
	if x.Base != 0 {
		p.useBase = true
	}
	p.idl = ""
	return p
}

// AnnStruct adds a struct-level annotation (e.g. `agw.to_snake = "true"`).
func (p *Prog) AnnStruct(st *tbin.Shape, ann string) *Prog {
	p.structAnn[st] = append(p.structAnn[st], ann)
	p.idl = ""
	return p
}

func (p *Prog) FX(st *tbin.Shape, i int) FX {
	if x := p.fx[st]; x != nil {
		return x[i]
	}
	return FX{}
}

// Alias is the key dynamicgo documents for field i under alias mapping (alias = name unless annotated).
func (p *Prog) Alias(st *tbin.Shape, i int) string {
	if a := p.FX(st, i).Alias; a != "" {
		return a
	}
	return st.Fields[i].FName()
}

// Keys returns the JSON keys that map to field i under the given MapFieldWay.
func (p *Prog) Keys(st *tbin.Shape, i int, way meta.MapFieldWay) []string {
	n, a := st.Fields[i].FName(), p.Alias(st, i)
	switch way {
	case meta.MapFieldUseAlias:
		return []string{a}
	case meta.MapFieldUseFieldName:
		return []string{n}
	}
	if a == n {
		return []string{n}
	}
	return []string{a, n}
}

// FieldIndex finds the field with that id, -1 if undeclared.
func FieldIndex(st *tbin.Shape, id int16) int {
	for i, f := range st.Fields {
		if f.ID == id {
			return i
		}
	}
	return -1
}

// BaseShape / BaseRespShape are the shapes of thrift/base's Base and BaseResp.
var (
	trafficEnv    = tbin.StructS(tbin.SField{ID: 1, Name: "Open", S: tbin.Sc(tbin.BOOL)}, tbin.SField{ID: 2, Name: "Env", S: tbin.Sc(tbin.STRING)})
	BaseShape     = tbin.StructS(tbin.SField{ID: 1, Name: "LogID", S: tbin.Sc(tbin.STRING)}, tbin.SField{ID: 2, Name: "Caller", S: tbin.Sc(tbin.STRING)}, tbin.SField{ID: 3, Name: "Addr", S: tbin.Sc(tbin.STRING)}, tbin.SField{ID: 4, Name: "Client", S: tbin.Sc(tbin.STRING)}, tbin.SField{ID: 5, Name: "TrafficEnv", S: trafficEnv, Req: 2}, tbin.SField{ID: 6, Name: "Extra", S: tbin.MapS(tbin.Sc(tbin.STRING), tbin.Sc(tbin.STRING)), Req: 2})
	BaseRespShape = tbin.StructS(tbin.SField{ID: 1, Name: "StatusMessage", S: tbin.Sc(tbin.STRING)}, tbin.SField{ID: 2, Name: "StatusCode", S: tbin.Sc(tbin.I32)}, tbin.SField{ID: 3, Name: "Extra", S: tbin.MapS(tbin.Sc(tbin.STRING), tbin.Sc(tbin.STRING)), Req: 2})
)

const baseIDL = `namespace go base
struct TrafficEnv {
    1: bool Open = false,
    2: string Env = "",
}
struct Base {
    1: string LogID = "",
    2: string Caller = "",
    3: string Addr = "",
    4: string Client = "",
    5: optional TrafficEnv TrafficEnv,
    6: optional map<string, string> Extra,
}
struct BaseResp {
    1: string StatusMessage = "",
    2: i32 StatusCode = 0,
    3: optional map<string, string> Extra,
}
`

func scalarName(s *tbin.Shape) string {
	switch s.T {
	case tbin.BOOL:
		return "bool"
	case tbin.BYTE:
		return "byte"
	case tbin.I16:
		return "i16"
	case tbin.I32:
		return "i32"
	case tbin.I64:
		return "i64"
	case tbin.DOUBLE:
		return "double"
	case tbin.STRING:
		if s.Binary {
			return "binary"
		}
		return "string"
	}
	return ""
}

// IDL renders the program. The root type is the argument and result type of function M.
func (p *Prog) IDL() string {
	if p.idl != "" || p.raw {
		return p.idl
	}
	split := p.Split && !p.useBase && p.Root.T == tbin.STRUCT
	// file -1 = main; file i >= 0 = inc<i>.thrift (split mode: everything below root field i)
	defs := map[int][]string{}
	tdefs := map[int][]string{}
	typedefs := map[int]map[string]bool{}
	names := map[int]map[*tbin.Shape]string{}
	var tname func(s *tbin.Shape, file int, fromMain bool) string
	tname = func(s *tbin.Shape, file int, fromMain bool) string {
		switch s.T {
		case tbin.LIST:
			return "list<" + tname(s.Elem, file, fromMain) + ">"
		case tbin.SET:
			return "set<" + tname(s.Elem, file, fromMain) + ">"
		case tbin.MAP:
			return "map<" + tname(s.Key, file, fromMain) + "," + tname(s.Elem, file, fromMain) + ">"
		case tbin.STRUCT:
			if names[file] == nil {
				names[file] = map[*tbin.Shape]string{}
			}
			qual := ""
			if file >= 0 && fromMain {
				qual = fmt.Sprintf("inc%d.", file)
			}
			if n, ok := names[file][s]; ok {
				return qual + n
			}
			n := fmt.Sprintf("S%d", len(names[file]))
			if file >= 0 {
				n = fmt.Sprintf("N%d", len(names[file]))
			}
			if s == p.Root {
				n = "Root"
			}
			names[file][s] = n
			var body []string
			for i, f := range s.Fields {
				x := p.FX(s, i)
				r := ""
				switch f.Req {
				case 1:
					r = "required "
				case 2:
					r = "optional "
				}
				tn := ""
				switch x.Base {
				case 1:
					tn = "base.Base"
				case 2:
					tn = "base.BaseResp"
				default:
					if split && s == p.Root {
						tn = tname(f.S, i, true)
					} else {
						tn = tname(f.S, file, false)
					}
				}
				line := fmt.Sprintf("  %d: %s%s %s", f.ID, r, tn, f.FName())
				if x.DefLit != "" {
					line += " = " + x.DefLit
				}
				anns := append([]string{}, x.Ann...)
				if x.JSConv {
					anns = append(anns, `api.js_conv = "true"`)
				}
				if len(anns) > 0 {
					line += " (" + strings.Join(anns, ", ") + ")"
				}
				body = append(body, line)
			}
			sa := ""
			if a := p.structAnn[s]; len(a) > 0 {
				sa = " (" + strings.Join(a, ", ") + ")"
			}
			defs[file] = append(defs[file], fmt.Sprintf("struct %s {\n%s\n}%s\n", n, strings.Join(body, "\n"), sa))
			return qual + n
		}
		if p.Typedef {
			n := "T_" + scalarName(s)
			if file >= 0 && fromMain {
				// a scalar directly under the root: declared in the main file
				file = -1
			}
			if typedefs[file] == nil {
				typedefs[file] = map[string]bool{}
			}
			if !typedefs[file][n] {
				typedefs[file][n] = true
				tdefs[file] = append(tdefs[file], fmt.Sprintf("typedef %s %s\n", scalarName(s), n))
			}
			return n
		}
		return scalarName(s)
	}
	root := tname(p.Root, -1, false)
	hdr := "namespace go verif\n"
	if p.useBase {
		hdr = "include \"base.thrift\"\n" + hdr
	}
	p.incs = nil
	var files []int
	for f := range defs {
		if f >= 0 {
			files = append(files, f)
		}
	}
	sort.Ints(files)
	for _, f := range files {
		if p.incs == nil {
			p.incs = map[string]string{}
		}
		p.incs[fmt.Sprintf("a/b/inc%d.thrift", f)] = "namespace go verif\n" + strings.Join(append(tdefs[f], defs[f]...), "")
		hdr = fmt.Sprintf("include \"inc%d.thrift\"\n", f) + hdr
	}
	p.idl = hdr + strings.Join(append(tdefs[-1], defs[-1]...), "") + fmt.Sprintf("service Svc {\n  %s M(1: %s req)\n}\n", root, root)
	return p.idl
}

var (
	descMu    sync.Mutex
	descCache = map[string][2]*thrift.TypeDescriptor{}
	agwOnce   sync.Once
)

// EnableAGW registers the agw.* annotation family (name-case mappers) once per process.
func EnableAGW() { agwOnce.Do(annotation.InitAGWAnnos) }

// Descs parses the program with the given parse options and returns the descriptors of the root type as
// the request argument and as the response result of M. Cached per (IDL, options).
func (p *Prog) Descs(o thrift.Options) (req, resp *thrift.TypeDescriptor, err error) {
	return p.DescsN(o, 0)
}

// DescsN is Descs for the n-th independent parse of the same program (n>0 gives descriptors that are equal in
// content but distinct objects, as two services loading the same IDL would hold).
func (p *Prog) DescsN(o thrift.Options, n int) (req, resp *thrift.TypeDescriptor, err error) {
	idl := p.IDL()
	k := fmt.Sprintf("%d|%v|%s", n, o, p.Source())
	descMu.Lock()
	defer descMu.Unlock()
	if d, ok := descCache[k]; ok {
		return d[0], d[1], nil
	}
	if len(descCache) > 4000 {
		descCache = map[string][2]*thrift.TypeDescriptor{}
	}
	var inc map[string]string
	if p.useBase {
		inc = map[string]string{"a/b/base.thrift": baseIDL}
	}
	for k, v := range p.incs {
		if inc == nil {
			inc = map[string]string{}
		}
		inc[k] = v
	}
	svc, err := o.NewDescritorFromContent(context.Background(), "a/b/main.thrift", idl, inc, false)
	if err != nil {
		return nil, nil, fmt.Errorf("parse IDL: %v\n%s", err, idl)
	}
	fn := svc.Functions()["M"]
	if fn == nil {
		return nil, nil, fmt.Errorf("no function M")
	}
	rf := fn.Request().Struct().FieldById(1)
	sf := fn.Response().Struct().FieldById(0)
	if rf == nil || sf == nil {
		return nil, nil, fmt.Errorf("no request/response field")
	}
	descCache[k] = [2]*thrift.TypeDescriptor{rf.Type(), sf.Type()}
	return rf.Type(), sf.Type(), nil
}

// Includes: the files the main file includes (path -> text), nil if none.
func (p *Prog) Includes() map[string]string {
	p.IDL()
	var inc map[string]string
	if p.useBase {
		inc = map[string]string{"a/b/base.thrift": baseIDL}
	}
	for k, v := range p.incs {
		if inc == nil {
			inc = map[string]string{}
		}
		inc[k] = v
	}
	return inc
}

// Req is Descs(o).req, panicking on a parse error (harness-generated IDL must parse).
func (p *Prog) Req(o thrift.Options) *thrift.TypeDescriptor {
	d, _, err := p.Descs(o)
	if err != nil {
		panic(err)
	}
	return d
}

func (p *Prog) Resp(o thrift.Options) *thrift.TypeDescriptor {
	_, d, err := p.Descs(o)
	if err != nil {
		panic(err)
	}
	return d
}

// HasStructKey / HasKeyType report shape features that restrict which converter can take the shape.
func HasKeyType(s *tbin.Shape, pred func(k *tbin.Shape) bool) bool {
	if s.T == tbin.MAP && pred(s.Key) {
		return true
	}
	if s.Key != nil && HasKeyType(s.Key, pred) {
		return true
	}
	if s.Elem != nil && HasKeyType(s.Elem, pred) {
		return true
	}
	for _, f := range s.Fields {
		if HasKeyType(f.S, pred) {
			return true
		}
	}
	return false
}

// SortedIDs returns the declared ids of a struct shape in ascending order.
func SortedIDs(st *tbin.Shape) []int16 {
	var ids []int16
	for _, f := range st.Fields {
		ids = append(ids, f.ID)
	}
	sort.Slice(ids, func(i, j int) bool { return ids[i] < ids[j] })
	return ids
}
