// Package tutil holds helpers shared by the Thrift-side checks: descriptors from shapes,
// model <-> Go-value conversion for the documented generic forms.
package tutil

import (
	"context"
	"fmt"
	"math"
	"reflect"
	"sync"

	"github.com/cloudwego/dynamicgo/thrift"

	"verif/ref/tbin"
)

var (
	descMu    sync.Mutex
	descCache = map[string]*thrift.TypeDescriptor{}
)

// DescOpts parses the IDL of shape s (wrapped in struct Root field 1 unless s is a struct and !wrap)
// and returns the descriptor of s itself.
func DescOpts(s *tbin.Shape, opts thrift.Options) (*thrift.TypeDescriptor, error) {
	idl := tbin.IDL(s, true)
	svc, err := opts.NewDescritorFromContent(context.Background(), "a/b/main.thrift", idl, nil, false)
	if err != nil {
		return nil, fmt.Errorf("parse IDL: %v\n%s", err, idl)
	}
	fn := svc.Functions()["M"]
	if fn == nil {
		return nil, fmt.Errorf("no function M")
	}
	root := fn.Request().Struct().FieldById(1).Type() // request wrapper -> Root
	f := root.Struct().FieldById(1)
	if f == nil {
		return nil, fmt.Errorf("no field 1 in Root")
	}
	return f.Type(), nil
}

// Desc is DescOpts with default options, cached by shape string.
func Desc(s *tbin.Shape) *thrift.TypeDescriptor {
	k := s.String()
	descMu.Lock()
	defer descMu.Unlock()
	if d, ok := descCache[k]; ok {
		return d
	}
	d, err := DescOpts(s, thrift.Options{})
	if err != nil {
		panic(err)
	}
	descCache[k] = d
	return d
}

// RootDesc returns the descriptor of struct Root{1: s f1}.
func RootDesc(s *tbin.Shape) *thrift.TypeDescriptor {
	return Desc(tbin.StructS(tbin.SF(1, s)))
}

// GoAny converts a model value into the Go form that BinaryProtocol.ReadAny documents:
// ints as int8/16/32/64 (byte as int8 if byteAsInt8 else uint8), string or []byte, []interface{},
// map[string]interface{} / map[int]interface{} / map[interface{}]interface{}, map[FieldID]interface{}.
// Complex map keys become pointers (compared by PtrMapEqual).
func GoAny(v *tbin.Val, strAsBinary, byteAsInt8 bool) interface{} {
	switch v.T {
	case tbin.BOOL:
		return v.B
	case tbin.BYTE:
		if byteAsInt8 {
			return int8(v.I)
		}
		return byte(v.I)
	case tbin.I16:
		return int16(v.I)
	case tbin.I32:
		return int32(v.I)
	case tbin.I64:
		return v.I
	case tbin.DOUBLE:
		return v.F
	case tbin.STRING:
		if strAsBinary {
			return append([]byte{}, v.S...)
		}
		return string(v.S)
	case tbin.LIST, tbin.SET:
		r := make([]interface{}, 0, len(v.L))
		for _, e := range v.L {
			r = append(r, GoAny(e, strAsBinary, byteAsInt8))
		}
		return r
	case tbin.MAP:
		switch {
		case v.KT == tbin.STRING:
			m := map[string]interface{}{}
			for i := range v.L {
				m[string(v.K[i].S)] = GoAny(v.L[i], strAsBinary, byteAsInt8)
			}
			return m
		case v.KT == tbin.BYTE || v.KT == tbin.I16 || v.KT == tbin.I32 || v.KT == tbin.I64:
			m := map[int]interface{}{}
			for i := range v.L {
				m[intKey(v.K[i])] = GoAny(v.L[i], strAsBinary, byteAsInt8)
			}
			return m
		default:
			m := map[interface{}]interface{}{}
			for i := range v.L {
				k := GoAny(v.K[i], strAsBinary, byteAsInt8)
				switch x := k.(type) {
				case map[string]interface{}:
					m[&x] = GoAny(v.L[i], strAsBinary, byteAsInt8)
				case map[int]interface{}:
					m[&x] = GoAny(v.L[i], strAsBinary, byteAsInt8)
				case map[interface{}]interface{}:
					m[&x] = GoAny(v.L[i], strAsBinary, byteAsInt8)
				case []interface{}:
					m[&x] = GoAny(v.L[i], strAsBinary, byteAsInt8)
				case map[thrift.FieldID]interface{}:
					m[&x] = GoAny(v.L[i], strAsBinary, byteAsInt8)
				default:
					m[k] = GoAny(v.L[i], strAsBinary, byteAsInt8)
				}
			}
			return m
		}
	case tbin.STRUCT:
		m := map[thrift.FieldID]interface{}{}
		for _, f := range v.Fs {
			m[thrift.FieldID(f.ID)] = GoAny(f.V, strAsBinary, byteAsInt8)
		}
		return m
	}
	panic("bad val")
}

// GoWithShape converts a model value into the Go form ReadAnyWithDesc documents for shape s.
func GoWithShape(v *tbin.Val, s *tbin.Shape, byteAsUint8, useFieldName bool) interface{} {
	switch v.T {
	case tbin.BYTE:
		if byteAsUint8 {
			return byte(v.I)
		}
		return int8(v.I)
	case tbin.STRING:
		if s.Binary {
			return append([]byte{}, v.S...)
		}
		return string(v.S)
	case tbin.LIST, tbin.SET:
		r := make([]interface{}, 0, len(v.L))
		for _, e := range v.L {
			r = append(r, GoWithShape(e, s.Elem, byteAsUint8, useFieldName))
		}
		return r
	case tbin.MAP:
		switch {
		case v.KT == tbin.STRING:
			m := map[string]interface{}{}
			for i := range v.L {
				m[string(v.K[i].S)] = GoWithShape(v.L[i], s.Elem, byteAsUint8, useFieldName)
			}
			return m
		case v.KT == tbin.BYTE || v.KT == tbin.I16 || v.KT == tbin.I32 || v.KT == tbin.I64:
			m := map[int]interface{}{}
			for i := range v.L {
				m[intKey(v.K[i])] = GoWithShape(v.L[i], s.Elem, byteAsUint8, useFieldName)
			}
			return m
		default:
			m := map[interface{}]interface{}{}
			for i := range v.L {
				k := GoWithShape(v.K[i], s.Key, byteAsUint8, useFieldName)
				e := GoWithShape(v.L[i], s.Elem, byteAsUint8, useFieldName)
				switch x := k.(type) {
				case map[string]interface{}:
					m[&x] = e
				case map[int]interface{}:
					m[&x] = e
				case map[interface{}]interface{}:
					m[&x] = e
				case []interface{}:
					m[&x] = e
				case map[thrift.FieldID]interface{}:
					m[&x] = e
				default:
					m[k] = e
				}
			}
			return m
		}
	case tbin.STRUCT:
		if useFieldName {
			m := map[string]interface{}{}
			for _, f := range v.Fs {
				for _, sf := range s.Fields {
					if sf.ID == f.ID {
						m[sf.FName()] = GoWithShape(f.V, sf.S, byteAsUint8, useFieldName)
					}
				}
			}
			return m
		}
		m := map[thrift.FieldID]interface{}{}
		for _, f := range v.Fs {
			for _, sf := range s.Fields {
				if sf.ID == f.ID {
					m[thrift.FieldID(f.ID)] = GoWithShape(f.V, sf.S, byteAsUint8, useFieldName)
				}
			}
		}
		return m
	}
	return GoAny(v, false, !byteAsUint8)
}

// AnyEqual is deep equality over the generic Go forms; doubles by bit pattern; pointer map keys
// (complex keys) are matched by the equality of what they point to.
func AnyEqual(a, b interface{}) bool {
	switch x := a.(type) {
	case float64:
		y, ok := b.(float64)
		return ok && math.Float64bits(x) == math.Float64bits(y)
	case []byte:
		y, ok := b.([]byte)
		return ok && string(x) == string(y)
	case []interface{}:
		y, ok := b.([]interface{})
		if !ok || len(x) != len(y) {
			return false
		}
		for i := range x {
			if !AnyEqual(x[i], y[i]) {
				return false
			}
		}
		return true
	case map[string]interface{}:
		y, ok := b.(map[string]interface{})
		if !ok || len(x) != len(y) {
			return false
		}
		for k, v := range x {
			w, ok := y[k]
			if !ok || !AnyEqual(v, w) {
				return false
			}
		}
		return true
	case map[int]interface{}:
		y, ok := b.(map[int]interface{})
		if !ok || len(x) != len(y) {
			return false
		}
		for k, v := range x {
			w, ok := y[k]
			if !ok || !AnyEqual(v, w) {
				return false
			}
		}
		return true
	case map[thrift.FieldID]interface{}:
		y, ok := b.(map[thrift.FieldID]interface{})
		if !ok || len(x) != len(y) {
			return false
		}
		for k, v := range x {
			w, ok := y[k]
			if !ok || !AnyEqual(v, w) {
				return false
			}
		}
		return true
	case map[interface{}]interface{}:
		y, ok := b.(map[interface{}]interface{})
		if !ok || len(x) != len(y) {
			return false
		}
		used := map[interface{}]bool{}
	outer:
		for k, v := range x {
			for k2, w := range y {
				if used[k2] {
					continue
				}
				if AnyEqual(deref(k), deref(k2)) && AnyEqual(v, w) {
					used[k2] = true
					continue outer
				}
			}
			return false
		}
		return true
	}
	ra, rb := reflect.ValueOf(a), reflect.ValueOf(b)
	if !ra.IsValid() || !rb.IsValid() {
		return ra.IsValid() == rb.IsValid()
	}
	if ra.Type() != rb.Type() {
		return false
	}
	return reflect.DeepEqual(a, b)
}

func deref(k interface{}) interface{} {
	switch x := k.(type) {
	case *map[string]interface{}:
		return *x
	case *map[int]interface{}:
		return *x
	case *map[interface{}]interface{}:
		return *x
	case *[]interface{}:
		return *x
	case *map[thrift.FieldID]interface{}:
		return *x
	}
	return k
}

// EqualUnordered compares model values treating map entries and struct fields as unordered
// (Go-map driven writers emit them in arbitrary order).
func EqualUnordered(a, b *tbin.Val) bool {
	if a.T != b.T {
		return false
	}
	switch a.T {
	case tbin.LIST, tbin.SET:
		if a.ET != b.ET || len(a.L) != len(b.L) {
			return false
		}
		for i := range a.L {
			if !EqualUnordered(a.L[i], b.L[i]) {
				return false
			}
		}
		return true
	case tbin.MAP:
		if a.KT != b.KT || a.ET != b.ET || len(a.L) != len(b.L) {
			return false
		}
		used := make([]bool, len(b.L))
	outer:
		for i := range a.L {
			for j := range b.L {
				if !used[j] && EqualUnordered(a.K[i], b.K[j]) && EqualUnordered(a.L[i], b.L[j]) {
					used[j] = true
					continue outer
				}
			}
			return false
		}
		return true
	case tbin.STRUCT:
		if len(a.Fs) != len(b.Fs) {
			return false
		}
		used := make([]bool, len(b.Fs))
	outer2:
		for i := range a.Fs {
			for j := range b.Fs {
				if !used[j] && a.Fs[i].ID == b.Fs[j].ID && EqualUnordered(a.Fs[i].V, b.Fs[j].V) {
					used[j] = true
					continue outer2
				}
			}
			return false
		}
		return true
	}
	return tbin.Equal(a, b)
}

// GoAnyW is the Go form handed to WriteAny: like GoAny but integer-keyed maps use the Go key type
// that denotes the thrift key type (map[int8|byte|int16|int32|int64]interface{}).
func GoAnyW(v *tbin.Val, strAsBinary, byteAsInt8 bool) interface{} {
	switch v.T {
	case tbin.LIST, tbin.SET:
		r := make([]interface{}, 0, len(v.L))
		for _, e := range v.L {
			r = append(r, GoAnyW(e, strAsBinary, byteAsInt8))
		}
		return r
	case tbin.STRUCT:
		m := map[thrift.FieldID]interface{}{}
		for _, f := range v.Fs {
			m[thrift.FieldID(f.ID)] = GoAnyW(f.V, strAsBinary, byteAsInt8)
		}
		return m
	case tbin.MAP:
		val := func(i int) interface{} { return GoAnyW(v.L[i], strAsBinary, byteAsInt8) }
		switch v.KT {
		case tbin.STRING:
			m := map[string]interface{}{}
			for i := range v.L {
				m[string(v.K[i].S)] = val(i)
			}
			return m
		case tbin.BYTE:
			if byteAsInt8 {
				m := map[int8]interface{}{}
				for i := range v.L {
					m[int8(v.K[i].I)] = val(i)
				}
				return m
			}
			m := map[byte]interface{}{}
			for i := range v.L {
				m[byte(v.K[i].I)] = val(i)
			}
			return m
		case tbin.I16:
			m := map[int16]interface{}{}
			for i := range v.L {
				m[int16(v.K[i].I)] = val(i)
			}
			return m
		case tbin.I32:
			m := map[int32]interface{}{}
			for i := range v.L {
				m[int32(v.K[i].I)] = val(i)
			}
			return m
		case tbin.I64:
			m := map[int64]interface{}{}
			for i := range v.L {
				m[v.K[i].I] = val(i)
			}
			return m
		default:
			m := map[interface{}]interface{}{}
			for i := range v.L {
				k := GoAnyW(v.K[i], strAsBinary, byteAsInt8)
				switch x := k.(type) {
				case map[string]interface{}:
					m[&x] = val(i)
				case map[interface{}]interface{}:
					m[&x] = val(i)
				case []interface{}:
					m[&x] = val(i)
				case map[thrift.FieldID]interface{}:
					m[&x] = val(i)
				case map[int8]interface{}:
					m[&x] = val(i)
				case map[int16]interface{}:
					m[&x] = val(i)
				case map[int32]interface{}:
					m[&x] = val(i)
				case map[int64]interface{}:
					m[&x] = val(i)
				default:
					m[k] = val(i)
				}
			}
			return m
		}
	}
	return GoAny(v, strAsBinary, byteAsInt8)
}

// intKey is the Go int the library presents for an integer map key (BYTE is uint8 in dynamicgo).
func intKey(k *tbin.Val) int {
	if k.T == tbin.BYTE {
		return int(uint8(k.I))
	}
	return int(k.I)
}
