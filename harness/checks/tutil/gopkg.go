package tutil

import (
	"bytes"
	"fmt"

	gt "github.com/cloudwego/gopkg/protocol/thrift"

	"verif/ref/tbin"
)

// gopkgEncode re-encodes the model with the independent cloudwego/gopkg thrift codec.
func gopkgEncode(b []byte, v *tbin.Val) []byte {
	p := gt.Binary
	switch v.T {
	case tbin.BOOL:
		return p.AppendBool(b, v.B)
	case tbin.BYTE:
		return p.AppendByte(b, int8(v.I))
	case tbin.I16:
		return p.AppendI16(b, int16(v.I))
	case tbin.I32:
		return p.AppendI32(b, int32(v.I))
	case tbin.I64:
		return p.AppendI64(b, v.I)
	case tbin.DOUBLE:
		return p.AppendDouble(b, v.F)
	case tbin.STRING:
		return p.AppendBinary(b, v.S)
	case tbin.LIST:
		b = p.AppendListBegin(b, gt.TType(v.ET), len(v.L))
		for _, e := range v.L {
			b = gopkgEncode(b, e)
		}
		return b
	case tbin.SET:
		b = p.AppendSetBegin(b, gt.TType(v.ET), len(v.L))
		for _, e := range v.L {
			b = gopkgEncode(b, e)
		}
		return b
	case tbin.MAP:
		b = p.AppendMapBegin(b, gt.TType(v.KT), gt.TType(v.ET), len(v.L))
		for i := range v.L {
			b = gopkgEncode(b, v.K[i])
			b = gopkgEncode(b, v.L[i])
		}
		return b
	case tbin.STRUCT:
		for _, f := range v.Fs {
			b = p.AppendFieldBegin(b, gt.TType(f.V.T), f.ID)
			b = gopkgEncode(b, f.V)
		}
		return p.AppendFieldStop(b)
	}
	panic("bad")
}

// CrossCheckGopkg binds ref/tbin to an independent implementation: for every shape and container
// size 0..3 the encodings are byte-identical and gopkg's Skip consumes exactly the encoding.
func CrossCheckGopkg(shapes []*tbin.Shape) error {
	for _, s := range shapes {
		for n := 0; n <= 3; n++ {
			g := &tbin.Gen{}
			v := g.Build(s, n)
			a := tbin.Bytes(v)
			b := gopkgEncode(nil, v)
			if !bytes.Equal(a, b) {
				return fmt.Errorf("tbin vs gopkg encoding differ for %s n=%d: %x vs %x", s, n, a, b)
			}
			l, err := gt.Binary.Skip(a, gt.TType(v.T))
			if err != nil || l != len(a) {
				return fmt.Errorf("gopkg skip of tbin encoding %s n=%d: l=%d err=%v want %d", s, n, l, err, len(a))
			}
		}
	}
	return nil
}
