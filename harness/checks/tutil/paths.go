package tutil

import (
	"fmt"
	"strings"
	"unsafe"

	"github.com/cloudwego/dynamicgo/thrift"
	"github.com/cloudwego/dynamicgo/thrift/generic"

	"verif/ref/tbin"
)

// PE is one path element in the model.
type PE struct {
	K    byte // 'f' field id, 'n' field name, 'i' index, 's' str key, 'k' int key, 'b' bin key
	ID   int16
	I    int
	S    string
	B    []byte
	Name string
}

func (p PE) Path() generic.Path {
	switch p.K {
	case 'f':
		return generic.NewPathFieldId(thrift.FieldID(p.ID))
	case 'n':
		return generic.NewPathFieldName(p.Name)
	case 'i':
		return generic.NewPathIndex(p.I)
	case 's':
		return generic.NewPathStrKey(p.S)
	case 'k':
		return generic.NewPathIntKey(p.I)
	case 'b':
		return generic.NewPathBinKey(p.B)
	}
	panic("bad PE")
}

func (p PE) String() string {
	switch p.K {
	case 'f':
		return fmt.Sprintf("f%d", p.ID)
	case 'n':
		return "n:" + p.Name
	case 'i':
		return fmt.Sprintf("[%d]", p.I)
	case 's':
		return fmt.Sprintf("s:%q", p.S)
	case 'k':
		return fmt.Sprintf("k:%d", p.I)
	case 'b':
		return fmt.Sprintf("b:%x", p.B)
	}
	return "?"
}

func PathString(p []PE) string {
	var s []string
	for _, e := range p {
		s = append(s, e.String())
	}
	return strings.Join(s, "/")
}

func Paths(p []PE) []generic.Path {
	r := make([]generic.Path, len(p))
	for i, e := range p {
		r[i] = e.Path()
	}
	return r
}

// Child is one child of a container position in the model.
type Child struct {
	PE  PE // natural addressing (field id / index / str key / int key / bin key for other key kinds)
	Bin PE // bin-key addressing for map entries (K==0 otherwise)
	V   *tbin.Val
	S   *tbin.Shape // may be nil if the shape is unknown (untyped)
	Key *tbin.Val   // map key value
}

// Children lists the children of a container value in wire order. root is the full encoding (for raw key bytes).
func Children(v *tbin.Val, s *tbin.Shape, root []byte) []Child {
	var out []Child
	switch v.T {
	case tbin.STRUCT:
		for _, f := range v.Fs {
			c := Child{PE: PE{K: 'f', ID: f.ID}, V: f.V}
			if s != nil {
				for i := range s.Fields {
					if s.Fields[i].ID == f.ID {
						c.S = s.Fields[i].S
						c.PE.Name = s.Fields[i].FName()
					}
				}
			}
			out = append(out, c)
		}
	case tbin.LIST, tbin.SET:
		for i, e := range v.L {
			c := Child{PE: PE{K: 'i', I: i}, V: e}
			if s != nil {
				c.S = s.Elem
			}
			out = append(out, c)
		}
	case tbin.MAP:
		for i, e := range v.L {
			k := v.K[i]
			raw := root[k.Off:k.End]
			c := Child{V: e, Key: k, Bin: PE{K: 'b', B: raw}}
			switch v.KT {
			case tbin.STRING:
				c.PE = PE{K: 's', S: string(k.S)}
			case tbin.BYTE:
				c.PE = PE{K: 'k', I: int(uint8(k.I))}
			case tbin.I16, tbin.I32, tbin.I64:
				c.PE = PE{K: 'k', I: int(k.I)}
			default:
				c.PE = c.Bin
			}
			if s != nil {
				c.S = s.Elem
			}
			out = append(out, c)
		}
	}
	return out
}

// Pos is a root-to-node position.
type Pos struct {
	Path []PE
	V    *tbin.Val
	S    *tbin.Shape
}

// Positions lists every node of the value (root included, map keys excluded) with its natural path.
func Positions(v *tbin.Val, s *tbin.Shape, root []byte) []Pos {
	var out []Pos
	var walk func(v *tbin.Val, s *tbin.Shape, path []PE)
	walk = func(v *tbin.Val, s *tbin.Shape, path []PE) {
		out = append(out, Pos{Path: append([]PE{}, path...), V: v, S: s})
		for _, c := range Children(v, s, root) {
			walk(c.V, c.S, append(path, c.PE))
		}
	}
	walk(v, s, nil)
	return out
}

// SpanOf returns the offset of raw inside base (or -1 if raw does not lie in base) .
func SpanOf(base, raw []byte) (off int, ok bool) {
	if len(raw) == 0 || len(base) == 0 {
		return -1, false
	}
	b := uintptr(unsafe.Pointer(&base[0]))
	r := uintptr(unsafe.Pointer(&raw[0]))
	if r < b || r+uintptr(len(raw)) > b+uintptr(len(base)) {
		return -1, false
	}
	return int(r - b), true
}

// GoIface is the Go value Node.Interface documents for a model value.
func GoIface(v *tbin.Val, byID, strBin bool) interface{} {
	switch v.T {
	case tbin.BOOL:
		return v.B
	case tbin.BYTE:
		return int(uint8(v.I))
	case tbin.I16, tbin.I32, tbin.I64:
		return int(v.I)
	case tbin.DOUBLE:
		return v.F
	case tbin.STRING:
		if strBin {
			return append([]byte{}, v.S...)
		}
		return string(v.S)
	case tbin.LIST, tbin.SET:
		r := make([]interface{}, 0, len(v.L))
		for _, e := range v.L {
			r = append(r, GoIface(e, byID, strBin))
		}
		return r
	case tbin.MAP:
		switch v.KT {
		case tbin.STRING:
			m := map[string]interface{}{}
			for i := range v.L {
				m[string(v.K[i].S)] = GoIface(v.L[i], byID, strBin)
			}
			return m
		case tbin.BYTE, tbin.I16, tbin.I32, tbin.I64:
			m := map[int]interface{}{}
			for i := range v.L {
				k := int(v.K[i].I)
				if v.KT == tbin.BYTE {
					k = int(uint8(v.K[i].I))
				}
				m[k] = GoIface(v.L[i], byID, strBin)
			}
			return m
		default:
			return GoIfaceMap(v, byID, strBin)
		}
	case tbin.STRUCT:
		if byID {
			m := map[thrift.FieldID]interface{}{}
			for _, f := range v.Fs {
				m[thrift.FieldID(f.ID)] = GoIface(f.V, byID, strBin)
			}
			return m
		}
		m := map[int]interface{}{}
		for _, f := range v.Fs {
			m[int(f.ID)] = GoIface(f.V, byID, strBin)
		}
		return m
	}
	panic("bad val")
}

// GoIfaceMap is what Node.InterfaceMap documents (any key kind; complex keys by pointer).
func GoIfaceMap(v *tbin.Val, byID, strBin bool) map[interface{}]interface{} {
	m := map[interface{}]interface{}{}
	for i := range v.L {
		k := GoIface(v.K[i], byID, strBin)
		e := GoIface(v.L[i], byID, strBin)
		switch x := k.(type) {
		case map[string]interface{}:
			m[&x] = e
		case map[int]interface{}:
			m[&x] = e
		case map[interface{}]interface{}:
			m[&x] = e
		case []interface{}:
			m[&x] = e
		case map[thrift.FieldID]interface{}:
			m[&x] = e
		case []byte:
			// []byte is not hashable; the library would panic inserting it: flagged by the caller
			m[string(x)] = e
		default:
			m[k] = e
		}
	}
	return m
}
