package c20

import (
	"bytes"
	"fmt"
	"math"

	dproto "github.com/cloudwego/dynamicgo/proto"
	"github.com/cloudwego/dynamicgo/proto/binary"
	dpw "github.com/cloudwego/dynamicgo/proto/protowire"
	gpw "google.golang.org/protobuf/encoding/protowire"

	"verif/engine/core"
)

type BP = binary.BinaryProtocol

var (
	enc dpw.BinaryEncoder
	dec dpw.BinaryDecoder
)

// op32: one 32-bit kind; x is the raw bit pattern of the value.
type op32 struct {
	name string
	enc  func(b []byte, x uint32) []byte // dynamicgo encoder
	ref  func(b []byte, x uint32) []byte // reference encoder
	dec  func(b []byte) (uint32, int)    // dynamicgo decoder: bits, consumed
	bpw  func(p *BP, x uint32) error
	bpr  func(p *BP) (uint32, error)
}

func zz32(x uint32) uint64 { return gpw.EncodeZigZag(int64(int32(x))) }

var ops32 = []op32{
	{"int32",
		func(b []byte, x uint32) []byte { return enc.EncodeInt32(b, int32(x)) },
		func(b []byte, x uint32) []byte { return gpw.AppendVarint(b, uint64(int64(int32(x)))) },
		func(b []byte) (uint32, int) { v, n := dec.DecodeInt32(b); return uint32(v), n },
		func(p *BP, x uint32) error { return p.WriteInt32(int32(x)) },
		func(p *BP) (uint32, error) { v, e := p.ReadInt32(); return uint32(v), e }},
	{"sint32",
		func(b []byte, x uint32) []byte { return enc.EncodeSint32(b, int32(x)) },
		func(b []byte, x uint32) []byte { return gpw.AppendVarint(b, zz32(x)) },
		func(b []byte) (uint32, int) { v, n := dec.DecodeSint32(b); return uint32(v), n },
		func(p *BP, x uint32) error { return p.WriteSint32(int32(x)) },
		func(p *BP) (uint32, error) { v, e := p.ReadSint32(); return uint32(v), e }},
	{"uint32",
		func(b []byte, x uint32) []byte { return enc.EncodeUint32(b, x) },
		func(b []byte, x uint32) []byte { return gpw.AppendVarint(b, uint64(x)) },
		func(b []byte) (uint32, int) { return dec.DecodeUint32(b) },
		func(p *BP, x uint32) error { return p.WriteUint32(x) },
		func(p *BP) (uint32, error) { return p.ReadUint32() }},
	{"enum",
		func(b []byte, x uint32) []byte { return enc.EncodeEnum(b, int32(x)) },
		func(b []byte, x uint32) []byte { return gpw.AppendVarint(b, uint64(int64(int32(x)))) },
		func(b []byte) (uint32, int) { v, n := dec.DecodeInt32(b); return uint32(v), n },
		func(p *BP, x uint32) error { return p.WriteEnum(dproto.EnumNumber(int32(x))) },
		func(p *BP) (uint32, error) { v, e := p.ReadEnum(); return uint32(v), e }},
	{"fixed32",
		func(b []byte, x uint32) []byte { return enc.EncodeFixed32(b, x) },
		func(b []byte, x uint32) []byte { return gpw.AppendFixed32(b, x) },
		func(b []byte) (uint32, int) { return dec.DecodeFixed32(b) },
		func(p *BP, x uint32) error { return p.WriteFixed32(x) },
		func(p *BP) (uint32, error) { v, e := p.ReadFixed32(); return uint32(v), e }},
	{"sfixed32",
		func(b []byte, x uint32) []byte { return enc.EncodeSfixed32(b, int32(x)) },
		func(b []byte, x uint32) []byte { return gpw.AppendFixed32(b, x) },
		func(b []byte) (uint32, int) { v, n := dec.DecodeSfixed32(b); return uint32(v), n },
		func(p *BP, x uint32) error { return p.WriteSfixed32(int32(x)) },
		func(p *BP) (uint32, error) { v, e := p.ReadSfixed32(); return uint32(v), e }},
	{"float",
		func(b []byte, x uint32) []byte { return enc.EncodeFloat32(b, math.Float32frombits(x)) },
		func(b []byte, x uint32) []byte { return gpw.AppendFixed32(b, x) },
		func(b []byte) (uint32, int) { v, n := dec.DecodeFloat32(b); return math.Float32bits(v), n },
		func(p *BP, x uint32) error { return p.WriteFloat(math.Float32frombits(x)) },
		func(p *BP) (uint32, error) { v, e := p.ReadFloat(); return math.Float32bits(v), e }},
}

type op64 struct {
	name string
	enc  func(b []byte, x uint64) []byte
	ref  func(b []byte, x uint64) []byte
	dec  func(b []byte) (uint64, int)
	bpw  func(p *BP, x uint64) error
	bpr  func(p *BP) (uint64, error)
}

var ops64 = []op64{
	{"int64",
		func(b []byte, x uint64) []byte { return enc.EncodeInt64(b, int64(x)) },
		func(b []byte, x uint64) []byte { return gpw.AppendVarint(b, x) },
		func(b []byte) (uint64, int) { v, n := dec.DecodeInt64(b); return uint64(v), n },
		func(p *BP, x uint64) error { return p.WriteInt64(int64(x)) },
		func(p *BP) (uint64, error) { v, e := p.ReadInt64(); return uint64(v), e }},
	{"sint64",
		func(b []byte, x uint64) []byte { return enc.EncodeSint64(b, int64(x)) },
		func(b []byte, x uint64) []byte { return gpw.AppendVarint(b, gpw.EncodeZigZag(int64(x))) },
		func(b []byte) (uint64, int) { v, n := dec.DecodeSint64(b); return uint64(v), n },
		func(p *BP, x uint64) error { return p.WriteSint64(int64(x)) },
		func(p *BP) (uint64, error) { v, e := p.ReadSint64(); return uint64(v), e }},
	{"uint64",
		func(b []byte, x uint64) []byte { return enc.EncodeUint64(b, x) },
		func(b []byte, x uint64) []byte { return gpw.AppendVarint(b, x) },
		func(b []byte) (uint64, int) { return dec.DecodeUint64(b) },
		func(p *BP, x uint64) error { return p.WriteUint64(x) },
		func(p *BP) (uint64, error) { return p.ReadUint64() }},
	{"fixed64",
		func(b []byte, x uint64) []byte { return enc.EncodeFixed64(b, x) },
		func(b []byte, x uint64) []byte { return gpw.AppendFixed64(b, x) },
		func(b []byte) (uint64, int) { return dec.DecodeFixed64(b) },
		func(p *BP, x uint64) error { return p.WriteFixed64(x) },
		func(p *BP) (uint64, error) { v, e := p.ReadFixed64(); return uint64(v), e }},
	{"sfixed64",
		func(b []byte, x uint64) []byte { return enc.EncodeSfixed64(b, int64(x)) },
		func(b []byte, x uint64) []byte { return gpw.AppendFixed64(b, x) },
		func(b []byte) (uint64, int) { v, n := dec.DecodeSfixed64(b); return uint64(v), n },
		func(p *BP, x uint64) error { return p.WriteSfixed64(int64(x)) },
		func(p *BP) (uint64, error) { v, e := p.ReadSfixed64(); return uint64(v), e }},
	{"double",
		func(b []byte, x uint64) []byte { return enc.EncodeDouble(b, math.Float64frombits(x)) },
		func(b []byte, x uint64) []byte { return gpw.AppendFixed64(b, x) },
		func(b []byte) (uint64, int) { v, n := dec.DecodeDouble(b); return math.Float64bits(v), n },
		func(p *BP, x uint64) error { return p.WriteDouble(math.Float64frombits(x)) },
		func(p *BP) (uint64, error) { v, e := p.ReadDouble(); return math.Float64bits(v), e }},
}

// scratch buffers of one sweep
type sweep struct {
	l        *limiter
	a, b     []byte
	p        BP
	pad      []byte
	n        int64
	readInts bool
}

func newSweep(r *core.Result) *sweep {
	return &sweep{l: &limiter{r: r}, a: make([]byte, 0, 32), b: make([]byte, 0, 32), p: BP{Buf: make([]byte, 0, 64)}}
}

var readIntKinds32 = map[string]dproto.Type{"int32": dproto.INT32, "sint32": dproto.SINT32, "uint32": dproto.UINT32, "sfixed32": dproto.SFIX32}
var readIntKinds64 = map[string]dproto.Type{"int64": dproto.INT64, "sint64": dproto.SINT64, "uint64": dproto.UINT64, "sfixed64": dproto.SFIX64}

func (s *sweep) one32(x uint32) {
	s.n++
	for i := range ops32 {
		o := &ops32[i]
		ref := o.ref(s.b[:0], x)
		got := o.enc(s.a[:0], x)
		if !bytes.Equal(got, ref) {
			s.l.add("Encode:"+o.name+"|bytes-differ", "value bits %#08x: got %x want %x", x, got, ref)
		}
		v, n := o.dec(ref)
		if n != len(ref) {
			s.l.add("Decode:"+o.name+"|consumed", "value bits %#08x enc %x: consumed %d want %d", x, ref, n, len(ref))
		} else if v != x {
			s.l.add("Decode:"+o.name+"|value-differs", "value bits %#08x enc %x: decoded bits %#08x", x, ref, v)
		}
		// BinaryProtocol: write then read
		s.p.Buf, s.p.Read = s.p.Buf[:0], 0
		if err := o.bpw(&s.p, x); err != nil {
			s.l.add("Write:"+o.name+"|error", "value bits %#08x: %v", x, err)
			continue
		}
		if !bytes.Equal(s.p.Buf, ref) {
			s.l.add("Write:"+o.name+"|bytes-differ", "value bits %#08x: got %x want %x", x, s.p.Buf, ref)
		}
		s.p.Buf = append(s.p.Buf[:0], ref...)
		s.p.Buf = append(s.p.Buf, 0x80) // trailing garbage byte must not be touched
		v2, err := o.bpr(&s.p)
		if err != nil {
			s.l.add("Read:"+o.name+"|error", "value bits %#08x enc %x: %v", x, ref, err)
		} else if s.p.Read != len(ref) {
			s.l.add("Read:"+o.name+"|cursor", "value bits %#08x enc %x: cursor %d want %d", x, ref, s.p.Read, len(ref))
		} else if v2 != x {
			s.l.add("Read:"+o.name+"|value-differs", "value bits %#08x enc %x: read bits %#08x", x, ref, v2)
		}
		if s.readInts {
			if t, ok := readIntKinds32[o.name]; ok {
				s.p.Read = 0
				iv, err := s.p.ReadInt(t)
				want := int(int32(x))
				if o.name == "uint32" {
					want = int(x)
				}
				if err != nil || iv != want || s.p.Read != len(ref) {
					s.l.add("ReadInt:"+o.name+"|differs", "value bits %#08x enc %x: ReadInt=%d err=%v cursor=%d want %d", x, ref, iv, err, s.p.Read, want)
				}
			}
		}
	}
	// bare varint / zig-zag helpers on the 32-bit value
	s.varint(uint64(x))
	if g, w := dpw.EncodeZigZag(int64(int32(x))), gpw.EncodeZigZag(int64(int32(x))); g != w {
		s.l.add("EncodeZigZag|value-differs", "EncodeZigZag(%d)=%d want %d", int32(x), g, w)
	}
	if g, w := dpw.DecodeZigZag(uint64(x)), gpw.DecodeZigZag(uint64(x)); g != w {
		s.l.add("DecodeZigZag|value-differs", "DecodeZigZag(%d)=%d want %d", x, g, w)
	}
}

func (s *sweep) varint(x uint64) {
	ref := gpw.AppendVarint(s.b[:0], x)
	got := dpw.AppendVarint(s.a[:0], x)
	if !bytes.Equal(got, ref) {
		s.l.add("AppendVarint|bytes-differ", "%d: got %x want %x", x, got, ref)
	}
	if n := dpw.SizeVarint(x); n != len(ref) {
		s.l.add("SizeVarint|differs", "%d: got %d want %d", x, n, len(ref))
	}
	v, n := dpw.ConsumeVarint(ref)
	if n != len(ref) || v != x {
		s.l.add("ConsumeVarint|valid-encoding", "%d enc %x: got (%d,%d)", x, ref, v, n)
	}
}

func (s *sweep) one64(x uint64) {
	s.n++
	for i := range ops64 {
		o := &ops64[i]
		ref := o.ref(s.b[:0], x)
		got := o.enc(s.a[:0], x)
		if !bytes.Equal(got, ref) {
			s.l.add("Encode:"+o.name+"|bytes-differ", "value bits %#016x: got %x want %x", x, got, ref)
		}
		v, n := o.dec(ref)
		if n != len(ref) {
			s.l.add("Decode:"+o.name+"|consumed", "value bits %#016x enc %x: consumed %d want %d", x, ref, n, len(ref))
		} else if v != x {
			s.l.add("Decode:"+o.name+"|value-differs", "value bits %#016x enc %x: decoded bits %#016x", x, ref, v)
		}
		s.p.Buf, s.p.Read = s.p.Buf[:0], 0
		if err := o.bpw(&s.p, x); err != nil {
			s.l.add("Write:"+o.name+"|error", "value bits %#016x: %v", x, err)
			continue
		}
		if !bytes.Equal(s.p.Buf, ref) {
			s.l.add("Write:"+o.name+"|bytes-differ", "value bits %#016x: got %x want %x", x, s.p.Buf, ref)
		}
		s.p.Buf = append(s.p.Buf[:0], ref...)
		s.p.Buf = append(s.p.Buf, 0x80)
		v2, err := o.bpr(&s.p)
		if err != nil {
			s.l.add("Read:"+o.name+"|error", "value bits %#016x enc %x: %v", x, ref, err)
		} else if s.p.Read != len(ref) {
			s.l.add("Read:"+o.name+"|cursor", "value bits %#016x enc %x: cursor %d want %d", x, ref, s.p.Read, len(ref))
		} else if v2 != x {
			s.l.add("Read:"+o.name+"|value-differs", "value bits %#016x enc %x: read bits %#016x", x, ref, v2)
		}
		if t, ok := readIntKinds64[o.name]; ok {
			s.p.Read = 0
			iv, err := s.p.ReadInt(t)
			if err != nil || uint64(iv) != x || s.p.Read != len(ref) {
				s.l.add("ReadInt:"+o.name+"|differs", "value bits %#016x enc %x: ReadInt=%d err=%v cursor=%d", x, ref, iv, err, s.p.Read)
			}
		}
	}
	s.varint(x)
	if g, w := dpw.EncodeZigZag(int64(x)), gpw.EncodeZigZag(int64(x)); g != w {
		s.l.add("EncodeZigZag|value-differs", "EncodeZigZag(%d)=%d want %d", int64(x), g, w)
	}
	if g, w := dpw.DecodeZigZag(x), gpw.DecodeZigZag(x); g != w {
		s.l.add("DecodeZigZag|value-differs", "DecodeZigZag(%d)=%d want %d", x, g, w)
	}
	// ReadLength / ReadVarint on the varint encoding
	ref := gpw.AppendVarint(s.b[:0], x)
	s.p.Buf, s.p.Read = append(s.p.Buf[:0], ref...), 0
	if v, err := s.p.ReadVarint(); err != nil || v != x || s.p.Read != len(ref) {
		s.l.add("ReadVarint|differs", "%x: got %d err %v cursor %d", ref, v, err, s.p.Read)
	}
}

func (s *sweep) done(r *core.Result) { r.Count("values", s.n) }

func boundary64() []uint64 {
	seen := map[uint64]bool{}
	var out []uint64
	add := func(v uint64) {
		if !seen[v] {
			seen[v] = true
			out = append(out, v)
		}
	}
	add(0)
	for k := 0; k < 64; k++ {
		for d := int64(-2); d <= 2; d++ {
			add(uint64(int64(1)<<uint(k) + d))
			add(uint64(-(int64(1) << uint(k)) + d))
		}
	}
	// zig-zag preimages of the varint length boundaries
	for k := 7; k < 64; k += 7 {
		for d := int64(-2); d <= 2; d++ {
			add(uint64(gpw.DecodeZigZag(uint64(int64(1)<<uint(k) + d))))
		}
	}
	p := uint64(1)
	for i := 0; i < 19; i++ {
		add(p - 1)
		add(p)
		add(p + 1)
		add(-p)
		p *= 10
	}
	add(math.MaxUint64)
	// float classes
	for _, f := range []float64{1, -1.5, 0.1, 1e21, 1e-7, 5e-324, math.MaxFloat64, math.Inf(1), math.Inf(-1), math.NaN()} {
		add(math.Float64bits(f))
	}
	add(0x7ff0000000000001)
	add(0x8000000000000000)
	return out
}

func boundary32() []uint32 {
	seen := map[uint32]bool{}
	var out []uint32
	for _, v := range boundary64() {
		for _, x := range []uint32{uint32(v), uint32(v >> 32)} {
			if !seen[x] {
				seen[x] = true
				out = append(out, x)
			}
		}
	}
	for _, f := range []float32{1, -1.5, 0.1, 3e38, 1e-45, float32(math.Inf(1)), float32(math.Inf(-1))} {
		x := math.Float32bits(f)
		if !seen[x] {
			seen[x] = true
			out = append(out, x)
		}
	}
	for _, x := range []uint32{0x7fc00000, 0x7fa00001, 0xffc00001, 0x80000000} {
		if !seen[x] {
			seen[x] = true
			out = append(out, x)
		}
	}
	return out
}

var bytePairs32 = [][2]uint{{0, 1}, {0, 2}, {0, 3}, {1, 2}, {1, 3}, {2, 3}}

func scalarGroups(tier string) []group {
	var gs []group
	// --- 32-bit kinds
	gs = append(gs, group{"b32/boundary", func(tier string, yield func(core.Case) bool) {
		bs := boundary32()
		for i := 0; i < len(bs); i += 64 {
			blk := bs[i:min(i+64, len(bs))]
			if !yield(mk("b32", fmt.Sprintf("boundary block %d (%#08x..)", i/64, blk[0]), func(r *core.Result) {
				s := newSweep(r)
				s.readInts = true
				for _, x := range blk {
					s.one32(x)
				}
				s.done(r)
			})) {
				return
			}
		}
	}})
	for _, pr := range bytePairs32 {
		pr := pr
		gs = append(gs, group{fmt.Sprintf("b32/sparse-bytes%d%d", pr[0], pr[1]), func(tier string, yield func(core.Case) bool) {
			for a := 0; a < 256; a++ {
				a := a
				if !yield(mk("b32", fmt.Sprintf("byte%d=%#02x byte%d=00..ff others 0", pr[0], a, pr[1]), func(r *core.Result) {
					s := newSweep(r)
					s.readInts = true
					for b := 0; b < 256; b++ {
						s.one32(uint32(a)<<(8*pr[0]) | uint32(b)<<(8*pr[1]))
					}
					s.done(r)
				})) {
					return
				}
			}
		}})
	}
	if tier == "thorough" {
		for hi := 0; hi < 256; hi++ {
			hi := hi
			gs = append(gs, group{fmt.Sprintf("b32/full-%02x", hi), func(tier string, yield func(core.Case) bool) {
				for mid := 0; mid < 256; mid++ {
					base := uint32(hi)<<24 | uint32(mid)<<16
					if !yield(mk("b32", fmt.Sprintf("all values %#08x..%#08x", base, base|0xffff), func(r *core.Result) {
						s := newSweep(r)
						for lo := uint32(0); lo < 65536; lo++ {
							s.one32(base | lo)
						}
						s.done(r)
					})) {
						return
					}
				}
			}})
		}
	}
	// --- 64-bit kinds
	gs = append(gs, group{"b64/boundary", func(tier string, yield func(core.Case) bool) {
		bs := boundary64()
		for i := 0; i < len(bs); i += 64 {
			blk := bs[i:min(i+64, len(bs))]
			if !yield(mk("b64", fmt.Sprintf("boundary block %d (%#016x..)", i/64, blk[0]), func(r *core.Result) {
				s := newSweep(r)
				for _, x := range blk {
					s.one64(x)
				}
				s.done(r)
			})) {
				return
			}
		}
	}})
	for i := uint(0); i < 8; i++ {
		i := i
		gs = append(gs, group{fmt.Sprintf("b64/sparse-byte%d", i), func(tier string, yield func(core.Case) bool) {
			alpha := []uint64{0x01, 0x7f, 0x80, 0xff}
			if tier == "thorough" {
				alpha = nil
				for a := uint64(1); a < 256; a++ {
					alpha = append(alpha, a)
				}
			}
			for j := i + 1; j < 8; j++ {
				for _, a := range alpha {
					a, j := a, j
					if !yield(mk("b64", fmt.Sprintf("byte%d=%#02x byte%d over alphabet(%d)+00 others 0", i, a, j, len(alpha)), func(r *core.Result) {
						s := newSweep(r)
						s.one64(a << (8 * i))
						for _, b := range alpha {
							s.one64(a<<(8*i) | b<<(8*j))
						}
						s.done(r)
					})) {
						return
					}
				}
			}
			if i == 7 {
				for _, a := range alpha {
					a := a
					if !yield(mk("b64", fmt.Sprintf("byte7=%#02x others 0", a), func(r *core.Result) {
						s := newSweep(r)
						s.one64(a << 56)
						s.done(r)
					})) {
						return
					}
				}
			}
		}})
	}
	// --- varint decoder over byte strings
	cls := []byte{0x00, 0x01, 0x7f, 0x80, 0xff}
	for _, first := range cls {
		first := first
		gs = append(gs, group{fmt.Sprintf("varint-strings/class-first-%02x", first), func(tier string, yield func(core.Case) bool) {
			maxLen := 6
			if tier == "thorough" {
				maxLen = 11
			}
			// a case = all strings of one length with this first byte and a fixed second/third byte class
			for n := 1; n <= maxLen; n++ {
				if n <= 3 {
					n := n
					if !yield(mk("varint-strings", fmt.Sprintf("len=%d first=%02x", n, first), func(r *core.Result) {
						varintStrings(r, cls, []byte{first}, n)
					})) {
						return
					}
					continue
				}
				for _, c2 := range cls {
					for _, c3 := range cls {
						n, c2, c3 := n, c2, c3
						if !yield(mk("varint-strings", fmt.Sprintf("len=%d prefix=%02x%02x%02x", n, first, c2, c3), func(r *core.Result) {
							varintStrings(r, cls, []byte{first, c2, c3}, n)
						})) {
							return
						}
					}
				}
			}
		}})
	}
	gs = append(gs, group{"varint-strings/all-bytes", func(tier string, yield func(core.Case) bool) {
		if !yield(mk("varint-strings", "len=0", func(r *core.Result) { varintString(&limiter{r: r}, nil); r.Count("strings", 1) })) {
			return
		}
		all := make([]byte, 256)
		for i := range all {
			all[i] = byte(i)
		}
		maxLen := 2
		if tier == "thorough" {
			maxLen = 3
		}
		for n := 1; n <= maxLen; n++ {
			for f := 0; f < 256; f++ {
				n, f := n, f
				if !yield(mk("varint-strings", fmt.Sprintf("all-bytes len=%d first=%02x", n, f), func(r *core.Result) {
					varintStrings(r, all, []byte{byte(f)}, n)
				})) {
					return
				}
			}
		}
	}})
	// long strings: continuation prefixes over {80,ff} followed by EVERY last byte (the 10th byte decides overflow)
	gs = append(gs, group{"varint-strings/long-continuations", func(tier string, yield func(core.Case) bool) {
		for n := 7; n <= 11; n++ {
			for last := 0; last < 256; last += 32 {
				n, last := n, last
				if !yield(mk("varint-strings", fmt.Sprintf("len=%d: (80|ff)^%d then last byte %02x..%02x", n, n-1, last, last+31), func(r *core.Result) {
					l := &limiter{r: r}
					buf := make([]byte, n)
					cnt := int64(0)
					for m := 0; m < 1<<uint(n-1); m++ {
						for i := 0; i < n-1; i++ {
							buf[i] = 0x80
							if m>>uint(i)&1 == 1 {
								buf[i] = 0xff
							}
						}
						for b := last; b < last+32; b++ {
							buf[n-1] = byte(b)
							varintString(l, buf)
							cnt++
						}
					}
					r.Count("strings", cnt)
				})) {
					return
				}
			}
		}
	}})
	gs = append(gs, group{"truncations", enumTruncations})
	gs = append(gs, group{"tags", enumTags})
	gs = append(gs, group{"length-delimited", enumBytes})
	gs = append(gs, group{"speculative-length", enumSpecLen})
	gs = append(gs, group{"skip", enumSkip})
	return gs
}

func min(a, b int) int {
	if a < b {
		return a
	}
	return b
}

// varintStrings runs every string of length n over alphabet cls that starts with prefix.
func varintStrings(r *core.Result, cls []byte, prefix []byte, n int) {
	l := &limiter{r: r}
	if n < len(prefix) {
		return
	}
	buf := make([]byte, n)
	copy(buf, prefix)
	idx := make([]int, n)
	cnt := int64(0)
	for {
		for i := len(prefix); i < n; i++ {
			buf[i] = cls[idx[i]]
		}
		varintString(l, buf)
		cnt++
		// next
		i := n - 1
		for ; i >= len(prefix); i-- {
			idx[i]++
			if idx[i] < len(cls) {
				break
			}
			idx[i] = 0
		}
		if i < len(prefix) {
			break
		}
	}
	r.Count("strings", cnt)
}

func varintString(l *limiter, b []byte) {
	gv, gn := gpw.ConsumeVarint(b)
	dv, dn := dpw.ConsumeVarint(b)
	cls := "valid"
	if gn < 0 {
		cls = "invalid"
	}
	if (gn < 0) != (dn < 0) || gn >= 0 && (dn != gn || dv != gv) {
		l.add("ConsumeVarint|"+cls+"|differs", "input %x: got (%d,%d) reference (%d,%d)", b, dv, dn, gv, gn)
	}
	// the wrappers built on it
	if v, n := dec.DecodeUint64(b); (gn < 0) != (n < 0) || gn >= 0 && (n != gn || v != gv) {
		l.add("DecodeUint64|"+cls+"|differs", "input %x: got (%d,%d) reference (%d,%d)", b, v, n, gv, gn)
	}
	if v, n := dec.DecodeSint64(b); (gn < 0) != (n < 0) || gn >= 0 && (n != gn || v != gpw.DecodeZigZag(gv)) {
		l.add("DecodeSint64|"+cls+"|differs", "input %x: got (%d,%d) reference (%d,%d)", b, v, n, gpw.DecodeZigZag(gv), gn)
	}
	p := BP{Buf: b}
	v, err := p.ReadUint64()
	if (gn < 0) != (err != nil) || gn >= 0 && (p.Read != gn || v != gv) {
		l.add("ReadUint64|"+cls+"|differs", "input %x: got (%d,err=%v,cursor=%d) reference (%d,%d)", b, v, err, p.Read, gv, gn)
	}
	p = BP{Buf: b}
	ln, err := p.ReadLength()
	if (gn < 0) != (err != nil) || gn >= 0 && (p.Read != gn || uint64(ln) != gv) {
		l.add("ReadLength|"+cls+"|differs", "input %x: got (%d,err=%v,cursor=%d) reference (%d,%d)", b, ln, err, p.Read, gv, gn)
	}
	if gn >= 0 {
		p = BP{Buf: b}
		if err := p.Skip(dproto.VarintType, false); err != nil || p.Read != gn {
			l.add("Skip:varint|valid|differs", "input %x: err=%v cursor=%d want %d", b, err, p.Read, gn)
		}
	}
}

// enumTruncations: every proper prefix of the valid encoding of every boundary value must be rejected by the
// decoders (the reference rejects them), never accepted with a wrong length.
func enumTruncations(tier string, yield func(core.Case) bool) {
	for i := range ops64 {
		o := ops64[i]
		if !yield(mk("truncations", o.name, func(r *core.Result) {
			l := &limiter{r: r}
			n := int64(0)
			for _, x := range boundary64() {
				ref := o.ref(nil, x)
				for cut := 0; cut < len(ref); cut++ {
					n++
					in := ref[:cut:cut]
					if _, k := o.dec(in); k >= 0 {
						l.add("Decode:"+o.name+"|truncated|accepted", "input %x (cut of %x): consumed %d", in, ref, k)
					}
					p := BP{Buf: in}
					if _, err := o.bpr(&p); err == nil {
						l.add("Read:"+o.name+"|truncated|accepted", "input %x (cut of %x): nil error, cursor %d", in, ref, p.Read)
					}
				}
			}
			r.Count("strings", n)
		})) {
			return
		}
	}
	for i := range ops32 {
		o := ops32[i]
		if !yield(mk("truncations", o.name, func(r *core.Result) {
			l := &limiter{r: r}
			n := int64(0)
			for _, x := range boundary32() {
				ref := o.ref(nil, x)
				for cut := 0; cut < len(ref); cut++ {
					n++
					in := ref[:cut:cut]
					if _, k := o.dec(in); k >= 0 {
						l.add("Decode:"+o.name+"|truncated|accepted", "input %x (cut of %x): consumed %d", in, ref, k)
					}
					p := BP{Buf: in}
					if _, err := o.bpr(&p); err == nil {
						l.add("Read:"+o.name+"|truncated|accepted", "input %x (cut of %x): nil error, cursor %d", in, ref, p.Read)
					}
				}
			}
			r.Count("strings", n)
		})) {
			return
		}
	}
	// bool
	if !yield(mk("truncations", "bool", func(r *core.Result) {
		for _, b := range []bool{false, true} {
			ref := gpw.AppendVarint(nil, gpw.EncodeBool(b))
			if got := enc.EncodeBool(nil, b); !bytes.Equal(got, ref) {
				r.Add("Encode:bool|bytes-differ", "%v: got %x want %x", b, got, ref)
			}
			if v, n := dec.DecodeBool(ref); v != b || n != 1 {
				r.Add("Decode:bool|differs", "%v: got (%v,%d)", b, v, n)
			}
			p := BP{}
			if err := p.WriteBool(b); err != nil || !bytes.Equal(p.Buf, ref) {
				r.Add("Write:bool|bytes-differ", "%v: got %x err %v", b, p.Buf, err)
			}
			q := BP{Buf: append(append([]byte{}, ref...), 0x80)}
			if v, err := q.ReadBool(); err != nil || v != b || q.Read != 1 {
				r.Add("Read:bool|differs", "%v: got (%v,%v) cursor %d", b, v, err, q.Read)
			}
			q = BP{Buf: []byte{}}
			if _, err := q.ReadBool(); err == nil {
				r.Add("Read:bool|truncated|accepted", "empty input accepted")
			}
		}
		p := BP{Buf: []byte{0x7a}}
		if v, err := p.ReadByte(); err != nil || v != 0x7a || p.Read != 1 {
			r.Add("ReadByte|differs", "got (%v,%v)", v, err)
		}
		if got := enc.EncodeByte(nil, 0x7a); !bytes.Equal(got, []byte{0x7a}) || dec.DecodeByte(got) != 0x7a {
			r.Add("EncodeByte|differs", "got %x", got)
		}
	})) {
		return
	}
	// ConsumeFixed32/64 on every length 0..9
	yield(mk("truncations", "ConsumeFixed", func(r *core.Result) {
		src := []byte{0x01, 0x82, 0x03, 0x84, 0x05, 0x86, 0x07, 0x88, 0x09}
		for n := 0; n <= len(src); n++ {
			in := src[:n:n]
			gv, gn := gpw.ConsumeFixed32(in)
			dv, dn := dpw.ConsumeFixed32(in)
			if (gn < 0) != (dn < 0) || gn >= 0 && (gn != dn || gv != dv) {
				r.Add("ConsumeFixed32|differs", "input %x: got (%d,%d) reference (%d,%d)", in, dv, dn, gv, gn)
			}
			gv8, gn8 := gpw.ConsumeFixed64(in)
			dv8, dn8 := dpw.ConsumeFixed64(in)
			if (gn8 < 0) != (dn8 < 0) || gn8 >= 0 && (gn8 != dn8 || gv8 != dv8) {
				r.Add("ConsumeFixed64|differs", "input %x: got (%d,%d) reference (%d,%d)", in, dv8, dn8, gv8, gn8)
			}
			for _, wt := range []dproto.WireType{dproto.Fixed32Type, dproto.Fixed64Type} {
				need := 4
				if wt == dproto.Fixed64Type {
					need = 8
				}
				p := BP{Buf: in}
				err := p.Skip(wt, false)
				if (err != nil) != (n < need) || err == nil && p.Read != need {
					r.Add("Skip:fixed|differs", "input %x wire %d: err=%v cursor=%d", in, wt, err, p.Read)
				}
			}
		}
	}))
}

func tagNumbers() []int32 {
	return []int32{1, 2, 15, 16, 17, 127, 128, 2047, 2048, 2049, 18999, 19000, 19999, 20000, 65535, 65536, 262143, 262144, 1<<21 - 1, 1 << 21, 1<<25 - 1, 1 << 25, 1<<28 - 1, 1 << 28, 1<<29 - 2, 1<<29 - 1}
}

func enumTags(tier string, yield func(core.Case) bool) {
	kinds := []dproto.ProtoKind{dproto.BoolKind, dproto.EnumKind, dproto.Int32Kind, dproto.Sint32Kind, dproto.Uint32Kind, dproto.Int64Kind, dproto.Sint64Kind, dproto.Uint64Kind, dproto.Sfixed32Kind, dproto.Fixed32Kind, dproto.FloatKind, dproto.Sfixed64Kind, dproto.Fixed64Kind, dproto.DoubleKind, dproto.StringKind, dproto.BytesKind, dproto.MessageKind}
	wireOf := func(k dproto.ProtoKind) gpw.Type {
		switch k {
		case dproto.Sfixed32Kind, dproto.Fixed32Kind, dproto.FloatKind:
			return gpw.Fixed32Type
		case dproto.Sfixed64Kind, dproto.Fixed64Kind, dproto.DoubleKind:
			return gpw.Fixed64Type
		case dproto.StringKind, dproto.BytesKind, dproto.MessageKind:
			return gpw.BytesType
		}
		return gpw.VarintType
	}
	for _, num := range tagNumbers() {
		num := num
		if !yield(mk("tags", fmt.Sprintf("number=%d", num), func(r *core.Result) {
			for _, wt := range []gpw.Type{gpw.VarintType, gpw.Fixed64Type, gpw.BytesType, gpw.StartGroupType, gpw.EndGroupType, gpw.Fixed32Type} {
				ref := gpw.AppendTag(nil, gpw.Number(num), wt)
				p := BP{}
				if err := p.AppendTag(dproto.FieldNumber(num), dproto.WireType(wt)); err != nil || !bytes.Equal(p.Buf, ref) {
					r.Add("AppendTag|bytes-differ", "number %d wire %d: got %x err %v want %x", num, wt, p.Buf, err, ref)
				}
				q := BP{Buf: append(append([]byte{}, ref...), 0x80)}
				n0, t0, l0, err := q.ConsumeTagWithoutMove()
				if err != nil || int32(n0) != num || gpw.Type(t0) != wt || l0 != len(ref) || q.Read != 0 {
					r.Add("ConsumeTagWithoutMove|differs", "tag %x: got (%d,%d,%d,%v) cursor %d", ref, n0, t0, l0, err, q.Read)
				}
				n1, t1, l1, err := q.ConsumeTag()
				if err != nil || int32(n1) != num || gpw.Type(t1) != wt || l1 != len(ref) || q.Read != len(ref) {
					r.Add("ConsumeTag|differs", "tag %x: got (%d,%d,%d,%v) cursor %d", ref, n1, t1, l1, err, q.Read)
				}
				for cut := 0; cut < len(ref); cut++ {
					c := BP{Buf: ref[:cut:cut]}
					if _, _, _, err := c.ConsumeTag(); err == nil {
						r.Add("ConsumeTag|truncated|accepted", "tag %x cut at %d accepted", ref, cut)
					}
				}
			}
			for _, k := range kinds {
				ref := gpw.AppendTag(nil, gpw.Number(num), wireOf(k))
				p := BP{}
				if err := p.AppendTagByKind(dproto.FieldNumber(num), k); err != nil || !bytes.Equal(p.Buf, ref) {
					r.Add("AppendTagByKind|bytes-differ", "number %d kind %d: got %x err %v want %x", num, k, p.Buf, err, ref)
				}
			}
		})) {
			return
		}
	}
	// numbers outside [1, 2^29-1]: the reference decoder's verdict (error / number) must be matched
	for _, v := range []uint64{0, 7, 1 << 32, (1 << 29) << 3, (1<<31 - 1) << 3, (1 << 31) << 3, 1<<64 - 1} {
		v := v
		if !yield(mk("tags", fmt.Sprintf("raw-tag-varint=%d", v), func(r *core.Result) {
			in := gpw.AppendVarint(nil, v)
			gn, gt, gl := gpw.ConsumeTag(in)
			p := BP{Buf: in}
			dn, dt, _, err := p.ConsumeTag()
			if (gl < 0) != (err != nil) {
				r.Add("ConsumeTag|out-of-range|verdict-differs", "tag varint %d: err=%v, reference length %d", v, err, gl)
			} else if gl >= 0 && (int32(dn) != int32(gn) || int8(dt) != int8(gt) || p.Read != gl) {
				r.Add("ConsumeTag|out-of-range|value-differs", "tag varint %d: got (%d,%d) cursor %d, reference (%d,%d,%d)", v, dn, dt, p.Read, gn, gt, gl)
			}
		})) {
			return
		}
	}
}

func payload(n int, seed byte) []byte {
	b := make([]byte, n)
	for i := range b {
		b[i] = 'a' + byte((i+int(seed))%26) // valid UTF-8 for the string variants
	}
	if n > 0 && seed == 1 {
		b[0] = 0x7f
	}
	return b
}

func lenFamily(tier string) []int {
	var out []int
	for i := 0; i <= 40; i++ {
		out = append(out, i)
	}
	out = append(out, 126, 127, 128, 129, 255, 256, 16382, 16383, 16384, 16385)
	if tier == "thorough" {
		out = append(out, 2097150, 2097151, 2097152, 2097153)
	}
	return out
}

func enumBytes(tier string, yield func(core.Case) bool) {
	if !enumBytesBeyond(yield) {
		return
	}
	for _, n := range lenFamily(tier) {
		for seed := byte(0); seed < 2; seed++ {
			n, seed := n, seed
			if !yield(mk("length-delimited", fmt.Sprintf("len=%d content#%d", n, seed), func(r *core.Result) {
				pl := payload(n, seed)
				ref := gpw.AppendBytes(nil, pl)
				if got := enc.EncodeBytes(nil, pl); !bytes.Equal(got, ref) {
					r.Add("EncodeBytes|bytes-differ", "len %d: got %s want %s", n, hx(got), hx(ref))
				}
				if got := enc.EncodeString(nil, string(pl)); !bytes.Equal(got, ref) {
					r.Add("EncodeString|bytes-differ", "len %d: got %s want %s", n, hx(got), hx(ref))
				}
				in := append(append([]byte{}, ref...), 0x80, 0x01)
				gv, gn := gpw.ConsumeBytes(in)
				v, ln, all := dpw.ConsumeBytes(in)
				if all != gn || !bytes.Equal(v, gv) || ln != gn-len(gv) {
					r.Add("ConsumeBytes|differs", "len %d: got (len(v)=%d,%d,%d) reference (%d,%d)", n, len(v), ln, all, len(gv), gn)
				}
				if v, ln, all := dec.DecodeBytes(in); all != gn || !bytes.Equal(v, gv) || ln != gn-len(gv) {
					r.Add("DecodeBytes|differs", "len %d: got (len(v)=%d,%d,%d)", n, len(v), ln, all)
				}
				if v, ln, all := dec.DecodeString(in); all != gn || v != string(gv) || ln != gn-len(gv) {
					r.Add("DecodeString|differs", "len %d: got (len(v)=%d,%d,%d)", n, len(v), ln, all)
				}
				p := BP{}
				if err := p.WriteBytes(pl); err != nil || !bytes.Equal(p.Buf, ref) {
					r.Add("WriteBytes|bytes-differ", "len %d: got %s err %v", n, hx(p.Buf), err)
				}
				p = BP{}
				if err := p.WriteString(string(pl)); err != nil || !bytes.Equal(p.Buf, ref) {
					r.Add("WriteString|bytes-differ", "len %d: got %s err %v", n, hx(p.Buf), err)
				}
				q := BP{Buf: in}
				if v, err := q.ReadBytes(); err != nil || !bytes.Equal(v, pl) || q.Read != len(ref) {
					r.Add("ReadBytes|differs", "len %d: got len %d err %v cursor %d want %d", n, len(v), err, q.Read, len(ref))
				}
				for _, cp := range []bool{false, true} {
					q = BP{Buf: in}
					if v, err := q.ReadString(cp); err != nil || v != string(pl) || q.Read != len(ref) {
						r.Add("ReadString|differs", "len %d copy=%v: got len %d err %v cursor %d want %d", n, cp, len(v), err, q.Read, len(ref))
					}
				}
				q = BP{Buf: in}
				if err := q.Skip(dproto.BytesType, false); err != nil || q.Read != len(ref) {
					r.Add("Skip:bytes|differs", "len %d: err %v cursor %d want %d", n, err, q.Read, len(ref))
				}
				// every truncation that cuts the prefix or leaves the payload one byte short must be rejected
				cuts := []int{0, len(ref) - 1}
				if len(ref)-n > 1 {
					cuts = append(cuts, 1)
				}
				if n > 1 {
					cuts = append(cuts, len(ref)-n, len(ref)-n+1)
				}
				for _, c := range cuts {
					if c < 0 || c >= len(ref) {
						continue
					}
					t := ref[:c:c]
					if _, gn := gpw.ConsumeBytes(t); gn >= 0 {
						continue
					}
					if _, _, all := dpw.ConsumeBytes(t); all >= 0 {
						r.Add("ConsumeBytes|truncated|accepted", "len %d cut %d: consumed %d", n, c, all)
					}
					q = BP{Buf: t}
					if _, err := q.ReadBytes(); err == nil {
						r.Add("ReadBytes|truncated|accepted", "len %d cut %d accepted", n, c)
					}
					q = BP{Buf: t}
					if _, err := q.ReadString(true); err == nil {
						r.Add("ReadString|truncated|accepted", "len %d cut %d accepted", n, c)
					}
					q = BP{Buf: t}
					if err := q.Skip(dproto.BytesType, false); err == nil {
						r.Add("Skip:bytes|truncated|accepted", "len %d cut %d accepted", n, c)
					}
				}
			})) {
				return
			}
		}
	}
}

// enumBytesBeyond: length prefixes that announce more than the input holds, up to the largest varints (a signed
// end offset computed from them wraps): every reader reports an error exactly when the reference does, and the
// same number of bytes otherwise; none panics.
func enumBytesBeyond(yield func(core.Case) bool) bool {
	var lens []uint64
	for _, c := range []uint64{0, 1 << 7, 1 << 14, 1 << 31, 1 << 32, 1 << 62, 1 << 63} {
		for d := -12; d <= 2; d++ {
			lens = append(lens, c+uint64(d))
		}
	}
	for _, n := range lens {
		for _, have := range []int{0, 1, 5, 11} {
			n, have := n, have
			if !yield(mk("length-delimited", fmt.Sprintf("announced=%d present=%d", n, have), func(r *core.Result) {
				in := append(gpw.AppendVarint(nil, n), payload(have, 1)...)
				gv, gn := gpw.ConsumeBytes(in)
				v, ln, all := dpw.ConsumeBytes(in)
				if (all < 0) != (gn < 0) || (gn >= 0 && (all != gn || !bytes.Equal(v, gv) || ln != gn-len(gv))) {
					r.Add("ConsumeBytes|announced-beyond-input|differs", "announced %d, %d present: got (len(v)=%d,%d,%d) reference (%d,%d)", n, have, len(v), ln, all, len(gv), gn)
				}
				if _, _, all := dec.DecodeBytes(in); (all < 0) != (gn < 0) || (gn >= 0 && all != gn) {
					r.Add("DecodeBytes|announced-beyond-input|differs", "announced %d, %d present: consumed %d reference %d", n, have, all, gn)
				}
				if _, _, all := dec.DecodeString(in); (all < 0) != (gn < 0) || (gn >= 0 && all != gn) {
					r.Add("DecodeString|announced-beyond-input|differs", "announced %d, %d present: consumed %d reference %d", n, have, all, gn)
				}
				q := BP{Buf: in}
				if _, err := q.ReadBytes(); (err != nil) != (gn < 0) || (gn >= 0 && q.Read != gn) {
					r.Add("ReadBytes|announced-beyond-input|differs", "announced %d, %d present: err %v cursor %d reference %d", n, have, err, q.Read, gn)
				}
				for _, cp := range []bool{false, true} {
					q = BP{Buf: in}
					if _, err := q.ReadString(cp); (err != nil) != (gn < 0) || (gn >= 0 && q.Read != gn) {
						r.Add("ReadString|announced-beyond-input|differs", "announced %d, %d present, copy=%v: err %v cursor %d reference %d", n, have, cp, err, q.Read, gn)
					}
				}
				q = BP{Buf: in}
				if err := q.Skip(dproto.BytesType, false); (err != nil) != (gn < 0) || (gn >= 0 && q.Read != gn) {
					r.Add("Skip:bytes|announced-beyond-input|differs", "announced %d, %d present: err %v cursor %d reference %d", n, have, err, q.Read, gn)
				}
			})) {
				return false
			}
		}
	}
	return true
}

func hx(b []byte) string {
	if len(b) > 40 {
		return fmt.Sprintf("%x..(%d bytes)", b[:40], len(b))
	}
	return fmt.Sprintf("%x", b)
}

func enumSpecLen(tier string, yield func(core.Case) bool) {
	for _, n := range lenFamily(tier) {
		for _, pos := range []int{0, 1, 5} {
			for _, spare := range []int{0, 1, 2, 3, 16} {
				n, pos, spare := n, pos, spare
				if !yield(mk("speculative-length", fmt.Sprintf("payload=%d pos=%d spare-cap=%d", n, pos, spare), func(r *core.Result) {
					prefix := payload(pos, 1)
					pl := payload(n, 0)
					want := append(append(append([]byte{}, prefix...), gpw.AppendVarint(nil, uint64(n))...), pl...)
					b := append([]byte{}, prefix...)
					b, p := binary.AppendSpeculativeLength(b)
					if p != pos {
						r.Add("AppendSpeculativeLength|pos", "pos %d want %d", p, pos)
					}
					b = append(b, pl...)
					// exact capacity control: copy into a slice with the wanted spare capacity
					c := make([]byte, len(b), len(b)+spare)
					copy(c, b)
					out := binary.FinishSpeculativeLength(c, p)
					if !bytes.Equal(out, want) {
						r.Add("FinishSpeculativeLength|bytes-differ", "payload %d pos %d spare %d: got %s want %s", n, pos, spare, hx(out), hx(want))
					}
				})) {
					return
				}
			}
		}
	}
}

func enumSkip(tier string, yield func(core.Case) bool) {
	for i := range ops64 {
		o := ops64[i]
		if !yield(mk("skip", o.name, func(r *core.Result) {
			wt := dproto.VarintType
			if o.name == "fixed64" || o.name == "sfixed64" || o.name == "double" {
				wt = dproto.Fixed64Type
			}
			for _, x := range boundary64() {
				ref := o.ref(nil, x)
				p := BP{Buf: append(append([]byte{}, ref...), 0xff, 0xff)}
				if err := p.Skip(wt, false); err != nil || p.Read != len(ref) {
					r.Add("Skip:"+o.name+"|differs", "enc %x: err %v cursor %d want %d", ref, err, p.Read, len(ref))
					return
				}
			}
		})) {
			return
		}
	}
	for i := range ops32 {
		o := ops32[i]
		if !yield(mk("skip", o.name, func(r *core.Result) {
			wt := dproto.VarintType
			if o.name == "fixed32" || o.name == "sfixed32" || o.name == "float" {
				wt = dproto.Fixed32Type
			}
			for _, x := range boundary32() {
				ref := o.ref(nil, x)
				p := BP{Buf: append(append([]byte{}, ref...), 0xff, 0xff)}
				if err := p.Skip(wt, false); err != nil || p.Read != len(ref) {
					r.Add("Skip:"+o.name+"|differs", "enc %x: err %v cursor %d want %d", ref, err, p.Read, len(ref))
					return
				}
			}
		})) {
			return
		}
	}
}
