package c20

import (
	"bytes"
	"fmt"

	"github.com/cloudwego/dynamicgo/proto/binary"
	"github.com/cloudwego/dynamicgo/vsync"
	"google.golang.org/protobuf/encoding/protowire"

	"verif/engine/core"
)

// pooledGroups: the protocol objects handed out by NewBinaryProtol / NewBinaryProtocolBuffer come from a pool.
// History of length 2 on the pool (deterministic LIFO pools): a first reader / writer over a value of n1 bytes is
// used and given back (FreeBinaryProtocol / Recycle), then a second one writes and reads a value of n2 bytes:
// read(write(x)) == x with the cursor at the end and the standard bytes, whatever the first object left behind.
// (A recycled reader donates the buffer it was given to the pool - by design of Reset - so nothing is claimed
// about the first user's input bytes afterwards.) Sizes on both sides of 4 KiB (the
// default buffer), 64 KiB and 1 MiB.
func pooledGroups(tier string) []group {
	return []group{{"pooled-objects", func(tier string, yield func(core.Case) bool) { enumPooled(yield) }}}
}

func enumPooled(yield func(core.Case) bool) {
	sizes := []int{0, 1, 100, 4095, 4096, 4097, 65535, 65536, 65537, 1 << 20}
	for _, n1 := range sizes {
		for _, n2 := range []int{0, 1, 100, 5000} {
			for _, how := range []string{"reader+Recycle", "reader+Free", "partly-read-reader+Free", "writer+Free", "writer+Recycle"} {
				n1, n2, how := n1, n2, how
				c := core.Case{Tag: "pooled", Desc: func() interface{} {
					return map[string]interface{}{"op": "pooled protocol object reuse", "first": how, "first_payload_bytes": n1, "second_payload_bytes": n2}
				}, Run: func() core.Result {
					r := core.Result{Class: "ok", Key: fmt.Sprintf("pooled|%s|%d|%d", how, n1, n2)}
					vsync.Controlled = true
					vsync.Reset()
					defer func() { vsync.Controlled = false }()
					mkb := func(n int, b byte) []byte {
						s := make([]byte, n)
						for i := range s {
							s[i] = b + byte(i%7)
						}
						return s
					}
					class := func() string {
						switch {
						case n1 > 65536:
							return how + ",first>64KiB"
						case n1 > 4096:
							return how + ",first>4KiB"
						}
						return how + ",first<=4KiB"
					}()
					pi := core.Catch(func() {
						first := mkb(n1, 'a')
						enc1 := protowire.AppendBytes(nil, first)
						enc1 = append(enc1, protowire.AppendBytes(nil, []byte("tail"))...)
						switch how {
						case "writer+Free", "writer+Recycle":
							w := binary.NewBinaryProtocolBuffer()
							w.WriteBytes(first)
							if got := w.RawBuf(); !bytes.Equal(got, enc1[:len(enc1)-5]) {
								r.Add("pooled|"+class+"|first-writer-bytes-differ", "first writer of %d bytes: %d bytes written, want %d", n1, len(got), len(enc1)-5)
							}
							if how == "writer+Free" {
								binary.FreeBinaryProtocol(w)
							} else {
								w.Recycle()
							}
						default:
							rd := binary.NewBinaryProtol(enc1)
							got, err := rd.ReadBytes()
							if err != nil || !bytes.Equal(got, first) {
								r.Add("pooled|"+class+"|first-reader-readback-differs", "first reader over %d bytes: err=%v", n1, err)
							}
							if how != "partly-read-reader+Free" {
								if t, err := rd.ReadBytes(); err != nil || string(t) != "tail" || rd.Read != len(enc1) {
									r.Add("pooled|"+class+"|first-reader-readback-differs", "first reader over %d bytes, second value: %q err=%v cursor=%d of %d", n1, t, err, rd.Read, len(enc1))
								}
							}
							if how == "reader+Recycle" {
								rd.Recycle()
							} else {
								binary.FreeBinaryProtocol(rd)
							}
						}
						want := mkb(n2, 'k')
						ref := protowire.AppendBytes(nil, want)
						// variant A: a pooled READER is the very next user of the pool
						{
							enc := append([]byte{}, ref...)
							rdA := binary.NewBinaryProtol(enc)
							got, err := rdA.ReadBytes()
							if err != nil || !bytes.Equal(got, want) || rdA.Read != len(enc) {
								r.Add("pooled|"+class+"|next-reader-readback-differs", "after %s over %d bytes: the next pooled reader over %d bytes: err=%v cursor=%d want %d equal=%v", how, n1, n2, err, rdA.Read, len(enc), bytes.Equal(got, want))
							}
							rdA.Recycle()
						}
						// variant B: write, then read through a pooled reader
						w2 := binary.NewBinaryProtocolBuffer()
						if err := w2.WriteBytes(want); err != nil {
							r.Add("pooled|"+class+"|second-writer-error", "%v", err)
						}
						enc2 := append([]byte{}, w2.RawBuf()...)
						if !bytes.Equal(enc2, ref) {
							r.Add("pooled|"+class+"|second-writer-bytes-differ", "after %s over %d bytes: wrote %x.. want %x..", how, n1, enc2[:min(len(enc2), 16)], ref[:min(len(ref), 16)])
						}
						binary.FreeBinaryProtocol(w2)
						rd2 := binary.NewBinaryProtol(enc2)
						got, err := rd2.ReadBytes()
						if err != nil || !bytes.Equal(got, want) || rd2.Read != len(enc2) {
							r.Add("pooled|"+class+"|second-reader-readback-differs", "after %s over %d bytes: reading %d bytes: err=%v cursor=%d want %d equal=%v", how, n1, n2, err, rd2.Read, len(enc2), bytes.Equal(got, want))
						}
						rd2.Recycle()
					})
					if pi != nil {
						r.Add("pooled|"+class+"|panic@"+pi.Site+":"+core.PanicClass(pi.Val), "%s\n%s", pi.Val, pi.Stack)
					}
					r.Count("values", 4)
					if len(r.Viol) > 0 {
						r.Class = "violation"
					}
					return r
				}}
				if !yield(c) {
					return
				}
			}
		}
	}
}

