// Package c20: Protobuf wire codec agrees with the reference implementation.
//
// Wire level: proto/protowire (AppendVarint/ConsumeVarint/zig-zag/fixed/bytes, BinaryEncoder/BinaryDecoder) and the
// per-kind Write*/Read*/Skip methods of proto/binary.BinaryProtocol against google.golang.org/protobuf/encoding/protowire.
// Descriptor level: WriteAnyWithDesc/WriteMessageFields -> bytes accepted by protobuf-go as the same message,
// and ReadAnyWithDesc of those bytes gives the Go value back.
package c20

import (
	"fmt"

	"verif/engine/core"
	"verif/ref/pbref"
)

type check struct{}

func init() { core.Register(check{}) }

func (check) ID() string    { return "C20" }
func (check) Level() string { return "exploration" }
func (check) Rule() string {
	return "bounded-exhaustive enumeration, simplest first. 32-bit kinds (int32,uint32,sint32/zig-zag32,fixed32,sfixed32,float,enum): quick = every value with <=2 non-zero bytes plus +-2^k+d (|d|<=2) boundaries, thorough = all 2^32 values (256 groups x 256 cases x 65536 values); 64-bit kinds: every +-2^k+d, every 7-bit varint-length boundary +-1, every value with <=2 non-zero bytes over a byte alphabet (quick: {01,7f,80,ff}, thorough: all 255); varint decoder: all byte strings of length <=6 (quick) / <=11 (thorough) over {00,01,7f,80,ff} plus all strings of length <=2 (quick) / <=3 (thorough) over all 256 bytes, every truncation of every valid encoding; tags over number x wire-type alphabets; length-delimited payload lengths around every length-varint boundary; speculative length finishing; descriptor-driven writer/reader over the generated programs (scalars, lists, maps for every key kind, nested/recursive) x Go-value forms x {field name, field number} x cast x copy. One case of the scalar sweeps covers a block of values (counter `values`). A case is non-trivial if it is distinct by (operation, input block) and wrote+read at least one byte. Later additions: announced lengths around 2^7..2^63/2^64 beyond the input, same-simple-name program, congruent-tag program in controlled wire order. Round 8: pooled-objects group (histories of length 2 on the deterministic pool). Round 10: strict (disallowUnknown) reader and writer on every descriptor round trip."
}

func (check) Assumptions() []string {
	return []string{
		"reference = google.golang.org/protobuf (encoding/protowire for scalars; proto.Unmarshal into dynamicpb for messages), descriptors from jhump protoparse of the same generated proto3 text",
		"the 'random' draws named in the quantifier for 64-bit kinds are replaced by exhaustive structured families (sampling is a different technique family)",
		"conforming Go values = the forms the descriptor-driven reader itself produces and the writer documents ([]interface{}, map[string|int|interface{}]interface{}, map[string|proto.FieldNumber]interface{}); Go maps handed to the writer have at most one entry wherever the order of iteration could change the byte order of fields that the reader could confuse (the library iterates Go maps), multi-entry maps are compared order-insensitively through the reference decoder",
		"error presence only, never error text",
	}
}

func (check) BudgetSeconds(tier string) int {
	if tier == "thorough" {
		return 1500
	}
	return 200
}

type group struct {
	name string
	enum func(tier string, yield func(core.Case) bool)
}

func groups(tier string) []group {
	var gs []group
	gs = append(gs, scalarGroups(tier)...)
	gs = append(gs, descGroups(tier)...)
	gs = append(gs, pooledGroups(tier)...)
	return gs
}

func (check) Groups(tier string, seed int64) []string {
	var names []string
	for _, g := range groups(tier) {
		names = append(names, g.name)
	}
	return names
}

func (check) Enumerate(tier string, seed int64, g int, yield func(core.Case) bool) {
	groups(tier)[g].enum(tier, yield)
}

// SelfCheck: the reference pipeline (protoparse -> protodesc -> dynamicpb) accepts every program and agrees with the
// second opinion (jhump dynamic.Message) on a message with every field set. No dynamicgo code runs here.
func (check) SelfCheck() error {
	for _, s := range programs() {
		if err := s.CheckRef(); err != nil {
			return err
		}
		v := pbref.MsgVal(s.Root)
		for _, f := range s.Root.Fields {
			switch {
			case f.Card == pbref.Repeated:
				v.Set(f, pbref.ListVal(f, 3))
			case f.Card == pbref.Map:
				v.Set(f, pbref.MapVal(f, 3))
			case f.Kind == pbref.KMessage:
				v.Set(f, pbref.MsgVal(f.Msg))
			default:
				v.Set(f, pbref.Elem(f.Kind, 1))
			}
		}
		if err := s.JhumpAgrees(v); err != nil {
			return fmt.Errorf("%s: %v", s.ID, err)
		}
	}
	return nil
}

type desc struct {
	Op string `json:"op"`
	In string `json:"in"`
}

// mk wraps a case body: panics become violations with the innermost dynamicgo frame in the signature.
func mk(op, in string, run func(r *core.Result)) core.Case {
	return core.Case{
		Tag:  op,
		Desc: func() interface{} { return desc{op, in} },
		Run: func() core.Result {
			r := core.Result{Class: "ok", Key: op + "|" + in}
			if pi := core.Catch(func() { run(&r) }); pi != nil {
				r.Class = "panic"
				r.Add(op+"|panic@"+pi.Site+"|"+core.PanicClass(pi.Val), "%s: panic: %s\n%s", in, pi.Val, pi.Stack)
			}
			if len(r.Viol) > 0 && r.Class == "ok" {
				r.Class = "violation"
			}
			return r
		},
	}
}

// limiter keeps the number of reported violations per case small (one case may sweep 65536 values).
type limiter struct {
	r    *core.Result
	seen map[string]int
}

func (l *limiter) add(sig, format string, a ...interface{}) {
	if l.seen == nil {
		l.seen = map[string]int{}
	}
	l.seen[sig]++
	if l.seen[sig] <= 1 {
		l.r.Add(sig, format, a...)
	}
}
