package c20

import (
	"bytes"
	"fmt"
	"math"
	"strings"

	dproto "github.com/cloudwego/dynamicgo/proto"
	"github.com/cloudwego/dynamicgo/proto/binary"

	"verif/engine/core"
	"verif/ref/pbref"
)

func programs() []*pbref.Schema {
	ps := []*pbref.Schema{pbref.ProgScalars("low"), pbref.ProgScalars("tags"), pbref.ProgLists("low"), pbref.ProgLists("tags")}
	for _, k := range pbref.MapKeyKinds {
		ps = append(ps, pbref.ProgMaps(k))
	}
	ps = append(ps, pbref.ProgNested(), pbref.ProgSameName(), pbref.ProgCongruent(), pbref.ProgBigID(2048), pbref.ProgBigID(262144))
	return ps
}

// form = how a model value is presented to the writer as a Go value.
type form struct {
	byName  bool
	mapForm int  // 0: map[interface{}]interface{} (what the reader returns), 1: map[string]interface{} (string keys), 2: map[int]interface{} (int keys; needs cast)
	natural bool // fixed32/fixed64 as uint32/uint64 (the natural Go type; needs cast), otherwise the reader's own int32/int64
	cast    bool
}

func (f form) String() string {
	return fmt.Sprintf("name=%v,mapform=%s,natural=%v,cast=%v", f.byName, [...]string{"iface", "str", "int"}[f.mapForm], f.natural, f.cast)
}

// goScalar: the Go value of a scalar in the reader's own form.
func goScalar(k pbref.Kind, v *pbref.Val, natural bool) interface{} {
	switch k {
	case pbref.KBool:
		return v.U != 0
	case pbref.KInt32, pbref.KSint32, pbref.KSfixed32:
		return int32(v.U)
	case pbref.KEnum:
		return dproto.EnumNumber(int32(v.U))
	case pbref.KUint32:
		return uint32(v.U)
	case pbref.KFixed32:
		if natural {
			return uint32(v.U)
		}
		return int32(uint32(v.U))
	case pbref.KInt64, pbref.KSint64, pbref.KSfixed64:
		return int64(v.U)
	case pbref.KUint64:
		return v.U
	case pbref.KFixed64:
		if natural {
			return v.U
		}
		return int64(v.U)
	case pbref.KFloat:
		return math.Float32frombits(uint32(v.U))
	case pbref.KDouble:
		return math.Float64frombits(v.U)
	case pbref.KString:
		return string(v.B)
	case pbref.KBytes:
		return append([]byte{}, v.B...)
	}
	panic("goScalar " + k.String())
}

func goVal(v *pbref.Val, fm form) interface{} {
	switch {
	case v.Card == pbref.Repeated:
		out := make([]interface{}, 0, len(v.L))
		for _, e := range v.L {
			out = append(out, goVal(e, fm))
		}
		return out
	case v.Card == pbref.Map:
		switch fm.mapForm {
		case 1:
			out := map[string]interface{}{}
			for i := range v.MK {
				out[string(v.MK[i].B)] = goVal(v.MV[i], fm)
			}
			return out
		case 2:
			out := map[int]interface{}{}
			for i := range v.MK {
				out[int(int64(v.MK[i].U))] = goVal(v.MV[i], fm)
			}
			return out
		}
		out := map[interface{}]interface{}{}
		for i := range v.MK {
			out[goScalar(v.Key, v.MK[i], fm.natural)] = goVal(v.MV[i], fm)
		}
		return out
	case v.Kind == pbref.KMessage:
		return goMsg(v, fm)
	}
	return goScalar(v.Kind, v, fm.natural)
}

func goMsg(v *pbref.Val, fm form) interface{} {
	if fm.byName {
		out := map[string]interface{}{}
		for _, fv := range v.Fs {
			out[fv.F.Name] = goVal(fv.V, fm)
		}
		return out
	}
	out := map[dproto.FieldNumber]interface{}{}
	for _, fv := range v.Fs {
		out[dproto.FieldNumber(fv.F.Num)] = goVal(fv.V, fm)
	}
	return out
}

// numeric view of a Go integer
func asInt(x interface{}) (neg bool, mag uint64, ok bool) {
	switch t := x.(type) {
	case int:
		return t < 0, uint64(t), true
	case int8:
		return t < 0, uint64(int64(t)), true
	case int16:
		return t < 0, uint64(int64(t)), true
	case int32:
		return t < 0, uint64(int64(t)), true
	case int64:
		return t < 0, uint64(t), true
	case dproto.EnumNumber:
		return t < 0, uint64(int64(t)), true
	case dproto.FieldNumber:
		return t < 0, uint64(int64(t)), true
	case uint:
		return false, uint64(t), true
	case uint8:
		return false, uint64(t), true
	case uint16:
		return false, uint64(t), true
	case uint32:
		return false, uint64(t), true
	case uint64:
		return false, t, true
	}
	return false, 0, false
}

// cmpScalar compares a Go value read back by the library with the model. Integers are compared NUMERICALLY (the Go
// type the reader picks is not judged): "" = equal.
func cmpScalar(got interface{}, k pbref.Kind, v *pbref.Val) string {
	switch k {
	case pbref.KBool:
		b, ok := got.(bool)
		if !ok {
			return "type"
		}
		if b != (v.U != 0) {
			return "value-differs"
		}
	case pbref.KFloat:
		f, ok := got.(float32)
		if !ok {
			return "type"
		}
		if math.Float32bits(f) != uint32(v.U) {
			return "value-differs"
		}
	case pbref.KDouble:
		f, ok := got.(float64)
		if !ok {
			return "type"
		}
		if math.Float64bits(f) != v.U {
			return "value-differs"
		}
	case pbref.KString:
		s, ok := got.(string)
		if !ok {
			return "type"
		}
		if s != string(v.B) {
			return "value-differs"
		}
	case pbref.KBytes:
		s, ok := got.([]byte)
		if !ok {
			return "type"
		}
		if !bytes.Equal(s, v.B) {
			return "value-differs"
		}
	default:
		neg, mag, ok := asInt(got)
		if !ok {
			return "type"
		}
		if k.IsUnsigned() {
			if neg {
				// same bits but negative: the unsigned kind was read into a signed Go type
				if k == pbref.KFixed32 && uint32(mag) == uint32(v.U) || k == pbref.KFixed64 && mag == v.U {
					return "unsigned-read-as-negative"
				}
				return "value-differs"
			}
			if mag != v.U {
				return "value-differs"
			}
		} else {
			if int64(mag) != int64(v.U) || neg != (int64(v.U) < 0) {
				return "value-differs"
			}
		}
	}
	return ""
}

type mismatch struct {
	cls   string // outcome class
	where string // kind/card of the offending node
	path  string
}

func nodeClass(v *pbref.Val) string {
	k := v.Kind.String()
	switch v.Card {
	case pbref.Repeated:
		return "list-of-" + k
	case pbref.Map:
		return "map-of-" + k
	}
	return k
}

func emptyOnWire(v *pbref.Val) bool {
	// a message value that the writer encodes to zero bytes
	for _, fv := range v.Fs {
		if fv.V.Card == pbref.Repeated && len(fv.V.L) == 0 || fv.V.Card == pbref.Map && len(fv.V.MK) == 0 {
			continue
		}
		return false
	}
	return true
}

// cmpGo compares what the descriptor-driven reader returned with the model value.
func cmpGo(got interface{}, v *pbref.Val, byName bool, root bool, path string) *mismatch {
	switch {
	case v.Card == pbref.Repeated:
		l, ok := got.([]interface{})
		if !ok {
			return &mismatch{"type", nodeClass(v), path}
		}
		if len(l) != len(v.L) {
			return &mismatch{"length-differs", nodeClass(v), path}
		}
		ev := *v
		ev.Card = pbref.Single
		for i, e := range v.L {
			if m := cmpGo(l[i], e, byName, false, fmt.Sprintf("%s[%d]", path, i)); m != nil {
				if m.where == e.Kind.String() {
					m.where = "elem-of-" + nodeClass(v)
				}
				return m
			}
		}
	case v.Card == pbref.Map:
		mp, ok := got.(map[interface{}]interface{})
		if !ok {
			return &mismatch{"type", nodeClass(v), path}
		}
		if len(mp) != len(v.MK) {
			return &mismatch{"length-differs", nodeClass(v), path}
		}
		for i, k := range v.MK {
			var gv interface{}
			found := false
			keyCls := ""
			for gk, x := range mp {
				if c := cmpScalar(gk, v.Key, k); c == "" {
					gv, found = x, true
					break
				} else if c == "unsigned-read-as-negative" {
					keyCls = c
				}
			}
			if !found {
				if keyCls == "" {
					keyCls = "key-missing"
				}
				return &mismatch{keyCls, "key-" + v.Key.String(), fmt.Sprintf("%s{%s}", path, k)}
			}
			if m := cmpGo(gv, v.MV[i], byName, false, fmt.Sprintf("%s{%s}", path, k)); m != nil {
				if m.where == v.MV[i].Kind.String() {
					m.where = "value-of-" + nodeClass(v)
				}
				return m
			}
		}
	case v.Kind == pbref.KMessage:
		if got == nil && !root && emptyOnWire(v) {
			return &mismatch{"nil-for-empty-message", "message", path}
		}
		has := func(f *pbref.Field) (interface{}, bool) {
			if byName {
				m, ok := got.(map[string]interface{})
				if !ok {
					return nil, false
				}
				x, ok := m[f.Name]
				return x, ok
			}
			m, ok := got.(map[dproto.FieldNumber]interface{})
			if !ok {
				return nil, false
			}
			x, ok := m[dproto.FieldNumber(f.Num)]
			return x, ok
		}
		n := 0
		switch m := got.(type) {
		case map[string]interface{}:
			if !byName {
				return &mismatch{"type", "message", path}
			}
			n = len(m)
		case map[dproto.FieldNumber]interface{}:
			if byName {
				return &mismatch{"type", "message", path}
			}
			n = len(m)
		default:
			return &mismatch{"type", "message", path}
		}
		want := 0
		for _, fv := range v.Fs {
			x, ok := has(fv.F)
			if fv.V.Card == pbref.Repeated && len(fv.V.L) == 0 || fv.V.Card == pbref.Map && len(fv.V.MK) == 0 {
				if ok {
					want++
					// present-but-empty is fine
					if l, isl := x.([]interface{}); isl && len(l) == 0 {
						continue
					}
					if mp, ism := x.(map[interface{}]interface{}); ism && len(mp) == 0 {
						continue
					}
					return &mismatch{"value-differs", nodeClass(fv.V), path + "." + fv.F.Name}
				}
				continue
			}
			want++
			if !ok {
				return &mismatch{"field-missing", nodeClass(fv.V), path + "." + fv.F.Name}
			}
			if m := cmpGo(x, fv.V, byName, false, path+"."+fv.F.Name); m != nil {
				return m
			}
		}
		if n != want {
			return &mismatch{"extra-field", "message", path}
		}
	default:
		if c := cmpScalar(got, v.Kind, v); c != "" {
			return &mismatch{c, v.Kind.String(), path}
		}
	}
	return nil
}

// dcase = one descriptor-driven case: a root message value (usually a single top-level field) and a trigger class.
type dcase struct {
	s       *pbref.Schema
	v       *pbref.Val
	trigger string
	seq     bool // write the top-level fields one by one (ascending number) with single-entry maps: controlled order
}

func hasStrKeyMap(v *pbref.Val) (str, intk, boolk, anyMap bool) {
	var walk func(v *pbref.Val)
	walk = func(v *pbref.Val) {
		if v.Card == pbref.Map {
			anyMap = true
			switch {
			case v.Key == pbref.KString:
				str = true
			case v.Key == pbref.KBool:
				boolk = true
			default:
				intk = true
			}
		}
		for _, fv := range v.Fs {
			walk(fv.V)
		}
		for _, e := range v.L {
			walk(e)
		}
		for _, e := range v.MV {
			walk(e)
		}
	}
	walk(v)
	return
}

func hasFixedU(v *pbref.Val) bool {
	found := false
	var walk func(v *pbref.Val)
	walk = func(v *pbref.Val) {
		if v.Kind == pbref.KFixed32 || v.Kind == pbref.KFixed64 || v.Card == pbref.Map && (v.Key == pbref.KFixed32 || v.Key == pbref.KFixed64) {
			found = true
		}
		for _, fv := range v.Fs {
			walk(fv.V)
		}
		for _, e := range v.L {
			walk(e)
		}
		for _, e := range v.MV {
			walk(e)
		}
	}
	walk(v)
	return found
}

// forms enumerates the Go-value forms that are conforming for this value.
func forms(v *pbref.Val) []form {
	str, intk, boolk, anyMap := hasStrKeyMap(v)
	var out []form
	for _, byName := range []bool{false, true} {
		for _, cast := range []bool{false, true} {
			out = append(out, form{byName: byName, cast: cast})
			if anyMap && str && !intk && !boolk {
				out = append(out, form{byName: byName, cast: cast, mapForm: 1})
			}
			if cast {
				if anyMap && intk && !str && !boolk {
					out = append(out, form{byName: byName, cast: cast, mapForm: 2})
				}
				if hasFixedU(v) {
					out = append(out, form{byName: byName, cast: cast, natural: true})
				}
			}
		}
	}
	return out
}

func runDesc(r *core.Result, c dcase, fm form, copyStr bool) {
	root, err := c.s.Dyn()
	if err != nil {
		r.Add("NewDescritorFromContent|"+c.s.ID+"|error", "%v", err)
		return
	}
	in := fmt.Sprintf("%s %s", c.s.ID, c.v)
	want := pbref.Normalize(c.v)
	p := &binary.BinaryProtocol{}
	// ---- write
	if c.seq {
		for _, fv := range c.v.Fs {
			one := pbref.MsgVal(c.v.Msg).Set(fv.F, fv.V)
			if err := p.WriteMessageFields(root.Message(), goMsg(one, fm), fm.cast, false, fm.byName); err != nil {
				r.Add("WriteMessageFields|"+c.trigger+"|error", "%s [%s]: %v", in, fm, err)
				return
			}
		}
	} else {
		if err := p.WriteAnyWithDesc(root, goMsg(c.v, fm), false, fm.cast, false, fm.byName); err != nil {
			r.Add("WriteAnyWithDesc|"+c.trigger+"|error", "%s [%s]: %v", in, fm, err)
			return
		}
	}
	out := append([]byte{}, p.Buf...)
	back, err := c.s.Decode(out, c.s.Root)
	if err != nil {
		r.Add("WriteAnyWithDesc|"+c.trigger+formTag(fm, c.v)+"|reference-rejects", "%s [%s]: wrote %s; reference: %v (reference encoding %s)", in, fm, hx(out), err, hx(c.s.Encode(c.v)))
		return
	}
	if !pbref.Equal(back, want) {
		r.Add("WriteAnyWithDesc|"+c.trigger+formTag(fm, c.v)+"|reference-decodes-other-message", "%s [%s]: wrote %s which the reference decodes to %s, want %s", in, fm, hx(out), back, want)
		return
	}
	// ---- read back what was written
	q := &binary.BinaryProtocol{Buf: out}
	got, err := q.ReadAnyWithDesc(root, false, copyStr, false, fm.byName)
	if err != nil {
		r.Add("ReadAnyWithDesc|"+c.trigger+"|error", "%s: bytes %s (reference-valid): %v", in, hx(out), err)
		return
	}
	if m := cmpGo(got, c.v, fm.byName, true, ""); m != nil {
		sig := "ReadAnyWithDesc|" + m.where + "|" + m.cls
		switch m.cls {
		case "nil-for-empty-message", "unsigned-read-as-negative", "value-differs":
			// value-level outcomes: the offending node's kind is the trigger
		default:
			// structural outcomes (lengths, missing/extra fields, keys): in the hand-built nested cases the case class is the trigger
			if strings.HasPrefix(c.trigger, "nested") {
				sig = "ReadAnyWithDesc|" + c.trigger + "|" + m.where + ":" + m.cls
			}
		}
		r.Add(sig, "%s: bytes %s at %s: read back %#v", in, hx(out), m.path, got)
		return
	}
	if q.Read != len(out) {
		r.Add("ReadAnyWithDesc|"+c.trigger+"|cursor", "%s: bytes %s: cursor %d want %d", in, hx(out), q.Read, len(out))
	}
	// the strict reader (disallowUnknown): the message holds declared fields only, so it reads back just the same
	q2 := &binary.BinaryProtocol{Buf: out}
	got2, err := q2.ReadAnyWithDesc(root, false, copyStr, true, fm.byName)
	if err != nil {
		r.Add("ReadAnyWithDesc|"+c.trigger+",disallowUnknown|error", "%s: bytes %s (no unknown field in it): %v", in, hx(out), err)
	} else if m := cmpGo(got2, c.v, fm.byName, true, ""); m != nil {
		r.Add("ReadAnyWithDesc|"+c.trigger+",disallowUnknown|differs-from-the-lenient-read", "%s: bytes %s at %s: read back %#v", in, hx(out), m.path, got2)
	}
	// and the strict writer
	p3 := &binary.BinaryProtocol{}
	if !c.seq {
		if err := p3.WriteAnyWithDesc(root, goMsg(c.v, fm), false, fm.cast, true, fm.byName); err != nil {
			r.Add("WriteAnyWithDesc|"+c.trigger+",disallowUnknown|error", "%s [%s]: %v", in, fm, err)
		} else if back3, err := c.s.Decode(p3.Buf, c.s.Root); err != nil || !pbref.Equal(back3, want) {
			r.Add("WriteAnyWithDesc|"+c.trigger+",disallowUnknown|differs-from-the-lenient-write", "%s [%s]: wrote %s (lenient writer: %s), reference: %v", in, fm, hx(p3.Buf), hx(out), err)
		}
	}
}

// formTag adds the form bits that select a writer branch to the signature of writer-side findings.
func formTag(fm form, v *pbref.Val) string {
	_, _, _, anyMap := hasStrKeyMap(v)
	s := ""
	if anyMap {
		s += ",mapform=" + [...]string{"iface", "str", "int"}[fm.mapForm]
	}
	if fm.natural {
		s += ",natural-unsigned"
	}
	s += fmt.Sprintf(",cast=%v", fm.cast)
	return s
}

func yieldDesc(c dcase, yield func(core.Case) bool) bool {
	for _, fm := range forms(c.v) {
		for _, cp := range []bool{true, false} {
			if !cp && !(fm.cast && fm.mapForm == 0 && !fm.natural) {
				continue // copyString=false only changes the reader; one writer form is enough
			}
			fm, cp := fm, cp
			op := "desc"
			if c.seq {
				op = "desc-seq"
			}
			in := fmt.Sprintf("%s %s [%s,copy=%v]", c.s.ID, c.v, fm, cp)
			if len(in) > 300 {
				in = in[:300] + "..."
			}
			cs := mk(op, in, func(r *core.Result) { runDesc(r, c, fm, cp) })
			cs.Tag = c.trigger
			if !yield(cs) {
				return false
			}
		}
	}
	return true
}

func kindClass(k pbref.Kind) string { return k.String() }

func flatCases(s *pbref.Schema, tier string) []dcase {
	var out []dcase
	maxN := 3
	for _, f := range s.Root.Fields {
		switch f.Card {
		case pbref.Single:
			if f.Kind == pbref.KMessage {
				continue
			}
			for _, a := range pbref.Alphabet(f.Kind) {
				out = append(out, dcase{s: s, v: pbref.MsgVal(s.Root).Set(f, a), trigger: "single," + kindClass(f.Kind)})
			}
		case pbref.Repeated:
			for n := 0; n <= maxN; n++ {
				out = append(out, dcase{s: s, v: pbref.MsgVal(s.Root).Set(f, pbref.ListVal(f, n)), trigger: "list," + kindClass(f.Kind)})
			}
			if f.Kind != pbref.KMessage {
				// the whole boundary alphabet as one list (packed payload lengths > 127 for wide kinds)
				l := pbref.ListOf(f, pbref.Alphabet(f.Kind)...)
				out = append(out, dcase{s: s, v: pbref.MsgVal(s.Root).Set(f, l), trigger: "list," + kindClass(f.Kind)})
			}
		case pbref.Map:
			for n := 0; n <= maxN; n++ {
				out = append(out, dcase{s: s, v: pbref.MsgVal(s.Root).Set(f, pbref.MapVal(f, n)), trigger: "map<" + keyClass(f.Key) + "," + kindClass(f.Kind) + ">"})
			}
			if f.Kind == pbref.KInt32 {
				// every boundary key with a fixed value, one entry each
				for _, k := range pbref.Alphabet(f.Key) {
					m := pbref.MapOf(f).Put(k, pbref.Int(pbref.KInt32, 7))
					out = append(out, dcase{s: s, v: pbref.MsgVal(s.Root).Set(f, m), trigger: "map<" + keyClass(f.Key) + "," + kindClass(f.Kind) + ">"})
				}
			}
		}
	}
	return out
}

func keyClass(k pbref.Kind) string { return k.String() }

func nestedCases(s *pbref.Schema) []dcase {
	root := s.Root
	fa, fra, fma, fmi, fr, fx, ftail, fe := root.ByName("a"), root.ByName("ra"), root.ByName("ma"), root.ByName("mi"), root.ByName("r"), root.ByName("x"), root.ByName("tail"), root.ByName("e")
	sub1 := fa.Msg
	sub2 := sub1.ByName("d").Msg
	rec := fr.Msg
	S1 := func(name string, v *pbref.Val) *pbref.Val { return pbref.MsgVal(sub1).Set(sub1.ByName(name), v) }
	S2 := func(name string, v *pbref.Val) *pbref.Val { return pbref.MsgVal(sub2).Set(sub2.ByName(name), v) }
	R := func(name string, v *pbref.Val) *pbref.Val { return pbref.MsgVal(rec).Set(rec.ByName(name), v) }
	i32 := func(x int64) *pbref.Val { return pbref.Int(pbref.KInt32, x) }
	list := func(f *pbref.Field, es ...*pbref.Val) *pbref.Val { return pbref.ListOf(f, es...) }
	strs := func(f *pbref.Field, ss ...string) *pbref.Val {
		l := pbref.ListOf(f)
		for _, x := range ss {
			l.L = append(l.L, pbref.Str(x))
		}
		return l
	}
	ints := func(f *pbref.Field, xs ...int64) *pbref.Val {
		l := pbref.ListOf(f)
		for _, x := range xs {
			l.L = append(l.L, pbref.Int(f.Kind, x))
		}
		return l
	}
	var out []dcase
	add := func(trigger string, v *pbref.Val) { out = append(out, dcase{s: s, v: v, trigger: "nested:" + trigger}) }
	seq := func(trigger string, v *pbref.Val) {
		out = append(out, dcase{s: s, v: v, trigger: "nested-seq:" + trigger, seq: true})
	}
	T := func(f *pbref.Field, v *pbref.Val) *pbref.Val { return pbref.MsgVal(root).Set(f, v) }

	add("empty-root", pbref.MsgVal(root))
	add("empty-submessage", T(fa, pbref.MsgVal(sub1)))
	add("empty-submessage", T(fe, pbref.MsgVal(fe.Msg)))
	add("submessage-scalar", T(fa, S1("i", i32(5))))
	add("submessage-scalar", T(fa, S1("s", pbref.Str("x"))))
	add("depth2-empty", T(fa, S1("d", pbref.MsgVal(sub2))))
	add("depth2-scalar", T(fa, S1("d", S2("z", pbref.Int(pbref.KSint32, -3)))))
	add("depth3-empty", T(fa, S1("d", S2("e", pbref.MsgVal(sub2.ByName("e").Msg)))))
	add("submessage-packed-list", T(fa, S1("pl", ints(sub1.ByName("pl"), 1, -2, 300))))
	add("submessage-string-list", T(fa, S1("sl", strs(sub1.ByName("sl"), "a", "", "c"))))
	add("submessage-zigzag-list", T(fa, S1("zl", ints(sub1.ByName("zl"), 1, -2, -1<<40))))
	add("submessage-strmap", T(fa, S1("sm", pbref.MapOf(sub1.ByName("sm")).Put(pbref.Str("k"), i32(1)))))
	add("submessage-intmap", T(fa, S1("im", pbref.MapOf(sub1.ByName("im")).Put(pbref.Int(pbref.KInt64, 7), pbref.Str("x")))))
	add("list-of-messages", T(fra, list(fra, S1("i", i32(1)), S1("s", pbref.Str("z")))))
	add("list-of-messages-with-empty", T(fra, list(fra, S1("i", i32(1)), pbref.MsgVal(sub1), S1("s", pbref.Str("z")))))
	add("list-of-messages-with-packed-list", T(fra, list(fra, S1("pl", ints(sub1.ByName("pl"), 1)), S1("pl", ints(sub1.ByName("pl"), 2, 3)))))
	add("list-of-messages-with-string-list", T(fra, list(fra, S1("sl", strs(sub1.ByName("sl"), "a")), S1("sl", strs(sub1.ByName("sl"), "b")))))
	add("strmap-of-messages", T(fma, pbref.MapOf(fma).Put(pbref.Str("k"), S1("i", i32(1)))))
	add("strmap-of-messages-empty-value", T(fma, pbref.MapOf(fma).Put(pbref.Str("k"), pbref.MsgVal(sub1))))
	add("intmap-of-messages", T(fmi, pbref.MapOf(fmi).Put(i32(5), S1("s", pbref.Str("v")))))
	add("intmap-of-messages-with-packed-list", T(fmi, pbref.MapOf(fmi).Put(i32(4), S1("pl", ints(sub1.ByName("pl"), 1, 2)))))
	add("recursive-scalar", T(fr, R("v", i32(1))))
	add("recursive-chain", T(fr, R("next", R("next", R("v", i32(3))))))
	add("recursive-list-flat", T(fr, R("kids", list(rec.ByName("kids"), R("v", i32(1)), R("v", i32(2))))))
	add("recursive-list-nested", T(fr, R("kids", list(rec.ByName("kids"), R("kids", list(rec.ByName("kids"), R("v", i32(1)))), R("v", i32(2))))))
	// length prefixes of 2 and 3 bytes at depth 1, 2
	add("len2-depth1", T(fa, S1("s", pbref.Str(strings.Repeat("L", 200)))))
	add("len2-depth2", T(fa, S1("d", S2("b", pbref.Bytes(bytes.Repeat([]byte{0x0a}, 130))))))
	add("len3-depth0", T(ftail, pbref.Str(strings.Repeat("T", 20000))))
	add("len3-depth1", T(fa, S1("s", pbref.Str(strings.Repeat("M", 17000)))))
	add("len-127-128", T(fa, S1("s", pbref.Str(strings.Repeat("m", 125))))) // sub-message length 127
	add("len-127-128", T(fa, S1("s", pbref.Str(strings.Repeat("m", 126))))) // sub-message length 128 (2-byte prefix)
	// controlled field order at top level (sequential single-field writes, ascending field numbers)
	seq("scalars-after-submessage", pbref.MsgVal(root).Set(fa, S1("i", i32(1))).Set(fx, i32(6)).Set(ftail, pbref.Str("t")))
	seq("string-list-in-sub-then-same-number-in-parent", pbref.MsgVal(root).Set(fa, S1("sl", strs(sub1.ByName("sl"), "x"))).Set(fr, R("v", i32(1))))
	seq("strmap-in-sub-then-same-number-in-parent", pbref.MsgVal(root).Set(fa, S1("sm", pbref.MapOf(sub1.ByName("sm")).Put(pbref.Str("k"), i32(1)))).Set(fx, i32(7)))
	seq("packed-list-in-sub-then-same-number-in-parent", pbref.MsgVal(root).Set(fa, S1("pl", ints(sub1.ByName("pl"), 9))).Set(fmi, pbref.MapOf(fmi).Put(i32(1), pbref.MsgVal(sub1))))
	seq("all-top-level-fields", pbref.MsgVal(root).Set(fa, S1("i", i32(1))).Set(fra, list(fra, S1("i", i32(2)))).Set(fma, pbref.MapOf(fma).Put(pbref.Str("k"), S1("i", i32(3)))).
		Set(fmi, pbref.MapOf(fmi).Put(i32(1), S1("i", i32(4)))).Set(fr, R("v", i32(5))).Set(fx, i32(6)).Set(ftail, pbref.Str("t")).Set(fe, pbref.MsgVal(fe.Msg)))
	return out
}

// congruentCases: an unpacked list / a map directly followed on the wire by another length-delimited field whose
// tag starts with the same byte (controlled order: sequential single-field writes, ascending numbers).
func congruentCases(s *pbref.Schema) []dcase {
	root := s.Root
	f := func(n string) *pbref.Field { return root.ByName(n) }
	strs := func(fd *pbref.Field, ss ...string) *pbref.Val {
		l := pbref.ListOf(fd)
		for _, x := range ss {
			l.L = append(l.L, pbref.Str(x))
		}
		return l
	}
	sub := func(a int64) *pbref.Val {
		return pbref.MsgVal(f("sm").Msg).Set(f("sm").Msg.ByName("a"), pbref.Int(pbref.KInt32, a))
	}
	var out []dcase
	seq := func(trigger string, v *pbref.Val) {
		out = append(out, dcase{s: s, v: v, trigger: "congruent-seq:" + trigger, seq: true})
		out = append(out, dcase{s: s, v: v, trigger: "congruent:" + trigger})
	}
	rs := strs(f("rs"), "a", "b")
	m := pbref.MapOf(f("m")).Put(pbref.Str("k"), pbref.Int(pbref.KInt32, 1)).Put(pbref.Str("j"), pbref.Int(pbref.KInt32, 2))
	rm := pbref.ListOf(f("rm"), sub(1), sub(2))
	seq("string-list-then-string", pbref.MsgVal(root).Set(f("rs"), rs).Set(f("s"), pbref.Str("hello")))
	seq("map-then-bytes", pbref.MsgVal(root).Set(f("m"), m).Set(f("b"), pbref.Bytes([]byte{0x0a, 1, 'x', 0x10, 7})))
	seq("message-list-then-message", pbref.MsgVal(root).Set(f("rm"), rm).Set(f("sm"), sub(3)))
	seq("string-list-then-string-list", pbref.MsgVal(root).Set(f("rs"), rs).Set(f("rs2"), strs(f("rs2"), "c")))
	seq("all", pbref.MsgVal(root).Set(f("lo"), pbref.Int(pbref.KInt32, 5)).Set(f("rs"), rs).Set(f("m"), m).Set(f("rm"), rm).Set(f("s"), pbref.Str("t")).
		Set(f("b"), pbref.Bytes([]byte{1})).Set(f("sm"), sub(4)).Set(f("rs2"), strs(f("rs2"), "d", "e")))
	return out
}

func bigidCases(s *pbref.Schema) []dcase {
	var out []dcase
	for _, f := range s.Root.Fields {
		var v *pbref.Val
		switch f.Card {
		case pbref.Repeated:
			v = pbref.ListVal(f, 3)
		case pbref.Map:
			v = pbref.MapVal(f, 1)
		default:
			v = pbref.Elem(f.Kind, 1)
		}
		out = append(out, dcase{s: s, v: pbref.MsgVal(s.Root).Set(f, v), trigger: "bigid," + f.Card.String()})
	}
	return out
}

func descGroups(tier string) []group {
	var gs []group
	for _, s := range programs() {
		s := s
		gs = append(gs, group{"desc/" + s.ID, func(tier string, yield func(core.Case) bool) {
			var cs []dcase
			switch {
			case s.ID == "nested":
				cs = nestedCases(s)
			case s.ID == "congruent":
				cs = congruentCases(s)
			case strings.HasPrefix(s.ID, "bigid"):
				cs = bigidCases(s)
			default:
				cs = flatCases(s, tier)
			}
			for _, c := range cs {
				if !yieldDesc(c, yield) {
					return
				}
			}
		}})
	}
	return gs
}
