// Package c05: Thrift DOM (PathNode) load/marshal is lossless; DOM edits marshal as edited.
package c05

import (
	"bytes"
	"fmt"
	"sort"
	"strings"

	"github.com/cloudwego/dynamicgo/thrift"
	"github.com/cloudwego/dynamicgo/thrift/generic"
	"github.com/cloudwego/dynamicgo/verifhook"
	"github.com/cloudwego/dynamicgo/vsync"

	"verif/checks/tutil"
	"verif/engine/core"
	"verif/ref/poolpoison"
	"verif/ref/tbin"
)

type check struct{}

func init() { core.Register(check{}) }

func (check) ID() string    { return "C05" }
func (check) Level() string { return "model_checking" }
func (check) Rule() string {
	return "explicit-state search over PathNode histories on the real implementation: values = every shape of T(1) u T(2)-subset x container size {0,1,3} plus constructed maps of 16/17/33 int and string entries (hash slots: all distinct / chain in the middle / chain passing the table end, with slot 0 occupied or free; string keys constructed per process through the StrHash hook) and structs with ids around 255/256/257; configurations = {recurse, lazy} x all 2^4 of {StoreChildrenById, StoreChildrenByHash, NotScanParentNode, UseNativeSkip}; histories = Load ; [Load of another value on the same tree / pooled tree / after a load in the other mode] ; sequences of <=2 (thorough <=4: 1.3e7 states, 6.9e7 transitions) edits {SetField / SetByStr / SetByInt of present leaf and absent child, replace list element, clear child} on the root and on first-level containers, states deduplicated on the model; after every history: Marshal and MarshalIntoBuffer(dirty prefix) decode strictly to the model (byte-identical to the input for an unedited tree under default options), every lookup (Field / GetByStr / GetByInt, present and absent keys) returns the child last stored. A case = (value, configuration); non-trivial = it executed at least one transition. Later additions: histories replayed on a reused tree, clearing of raw-key children, insertion of the keys an empty slot would report, fill = one more fresh key than the map has entries. Round 10: structs with ids on the growth steps of the by-id table (16/32/64/128). Round 11: edit nodes assembled through NewTypedNode."
}
func (check) Assumptions() []string {
	return []string{"reference = ref/tbin", "struct field order and map entry order are not part of the value (by-id and hash storage reorder them): compared unordered; list/set order is compared", "replacing a PRESENT container child whose own children are loaded (recursive mode) is not in the alphabet: Node and Next of that child would disagree and the statement does not say which wins", "in lazy mode only the root is edited (children have no loaded Next)"}
}

type value struct {
	name string
	s    *tbin.Shape
	v    *tbin.Val
	big  bool
}

// constructed int-key families for hash storage with N = 2*size slots
func intKeys(size int, pattern string) []int64 {
	N := int64(2 * size)
	var ks []int64
	switch pattern {
	case "distinct":
		for i := int64(0); i < int64(size); i++ {
			ks = append(ks, i*2+1+N*3) // odd slots, all distinct
		}
	case "chain-mid":
		// three keys colliding on slot 5, rest distinct elsewhere
		ks = append(ks, 5, 5+N, 5+2*N)
		for i := int64(0); len(ks) < size; i++ {
			ks = append(ks, 10+i)
		}
	case "chain-end-slot0-used":
		// slot 0 occupied first, then a chain on slot N-1 that has to wrap around the table end
		ks = append(ks, N, N-1, 2*N-1, 3*N-1)
		for i := int64(0); len(ks) < size; i++ {
			ks = append(ks, 3+i)
		}
	case "chain-end-slot0-free":
		ks = append(ks, N-1, 2*N-1, 3*N-1)
		for i := int64(0); len(ks) < size; i++ {
			ks = append(ks, 4+i)
		}
	case "alias32":
		// pairs of keys equal modulo 2^32 (i64 maps only)
		for i := int64(1); len(ks) < size; i++ {
			ks = append(ks, i)
			if len(ks) < size {
				ks = append(ks, i+1<<32)
			}
		}
	}
	return ks
}

// strKeys constructs string keys realising the same slot patterns with the running process's hash.
func strKeys(size int, pattern string) []string {
	N := uint64(2 * size)
	bySlot := map[uint64][]string{}
	for i := 0; i < 4000; i++ {
		k := fmt.Sprintf("key%d", i)
		sl := verifhook.C05StrHash(k) % N
		bySlot[sl] = append(bySlot[sl], k)
	}
	var ks []string
	used := map[string]bool{}
	take := func(slot uint64, n int) {
		for _, k := range bySlot[slot] {
			if n == 0 {
				return
			}
			if !used[k] {
				used[k] = true
				ks = append(ks, k)
				n--
			}
		}
	}
	switch pattern {
	case "distinct":
		for sl := uint64(1); len(ks) < size; sl += 2 {
			take(sl%N, 1)
		}
	case "chain-mid":
		take(5, 3)
		for sl := uint64(10); len(ks) < size; sl++ {
			take(sl%N, 1)
		}
	case "chain-end-slot0-used":
		take(0, 1)
		take(N-1, 3)
		for sl := uint64(3); len(ks) < size; sl++ {
			take(sl%N, 1)
		}
	case "chain-end-slot0-free":
		take(N-1, 3)
		for sl := uint64(4); len(ks) < size; sl++ {
			take(sl%N, 1)
		}
	}
	return ks
}

var patterns = []string{"distinct", "chain-mid", "chain-end-slot0-used", "chain-end-slot0-free"}

func bigValues() []value {
	var out []value
	for _, size := range []int{16, 17, 33} {
		for _, pat := range patterns {
			for _, kt := range []tbin.Type{tbin.I32, tbin.I64, tbin.BYTE} {
				if kt == tbin.BYTE && size > 17 {
					continue
				}
				m := &tbin.Val{T: tbin.MAP, KT: kt, ET: tbin.I32}
				for i, k := range intKeys(size, pat) {
					kv := &tbin.Val{T: kt, I: k}
					if kt == tbin.BYTE {
						kv.I = int64(int8(k))
					}
					m.K = append(m.K, kv)
					m.L = append(m.L, tbin.I32v(int32(7000+i)))
				}
				out = append(out, value{name: fmt.Sprintf("map<%s,i32>#%d/%s", kt, size, pat), s: tbin.MapS(tbin.Sc(kt), tbin.Sc(tbin.I32)), v: m, big: true})
			}
			if pat == "distinct" {
				m := &tbin.Val{T: tbin.MAP, KT: tbin.I64, ET: tbin.I32}
				for i, k := range intKeys(size, "alias32") {
					m.K = append(m.K, tbin.I64v(k))
					m.L = append(m.L, tbin.I32v(int32(7000+i)))
				}
				out = append(out, value{name: fmt.Sprintf("map<i64,i32>#%d/alias32", size), s: tbin.MapS(tbin.Sc(tbin.I64), tbin.Sc(tbin.I32)), v: m, big: true})
			}
			// string keys are constructed lazily (they need the process hash): marker value
			out = append(out, value{name: fmt.Sprintf("map<string,i32>#%d/%s", size, pat), s: tbin.MapS(tbin.Sc(tbin.STRING), tbin.Sc(tbin.I32)), big: true})
		}
	}
	// a partner for the 17-entry chain-end maps (N=34, keys 33, 67, 101 wrap around the table end): 18 entries (N=36)
	// whose key 67 ends up in slot 34, i.e. right behind the table of the 17-entry map when that is loaded on the
	// same tree afterwards (31, 32, 33 fill the slots in front of it)
	for _, kt := range []tbin.Type{tbin.I32, tbin.I64} {
		m := &tbin.Val{T: tbin.MAP, KT: kt, ET: tbin.I32}
		for i, k := range []int64{31, 32, 33, 67, 1, 2, 3, 4, 5, 6, 7, 8, 9, 10, 11, 12, 13, 14} {
			m.K = append(m.K, &tbin.Val{T: kt, I: k})
			m.L = append(m.L, tbin.I32v(int32(8000+i)))
		}
		out = append(out, value{name: fmt.Sprintf("map<%s,i32>#seq-stale-slot-behind-table-of-17", kt), s: tbin.MapS(tbin.Sc(kt), tbin.Sc(tbin.I32)), v: m, big: true})
	}
	// sequential key families: the same keys recur in loads of different sizes (stale-slot reuse scenarios)
	// (the last two ranges: negative keys - the slot of a key is key mod table size)
	for _, rng := range [][2]int64{{0, 16}, {0, 17}, {0, 32}, {0, 33}, {16, 32}, {16, 33}, {1, 17}, {-17, 0}, {-20, 13}} {
		for _, kt := range []tbin.Type{tbin.I32, tbin.STRING} {
			m := &tbin.Val{T: tbin.MAP, KT: kt, ET: tbin.I32}
			for k := rng[0]; k < rng[1]; k++ {
				if kt == tbin.STRING {
					m.K = append(m.K, tbin.Str(fmt.Sprintf("seq%d", k)))
				} else {
					m.K = append(m.K, tbin.I32v(int32(k)))
				}
				m.L = append(m.L, tbin.I32v(int32(9000+100*rng[0]+k)))
			}
			out = append(out, value{name: fmt.Sprintf("map<%s,i32>#seq%d-%d", kt, rng[0], rng[1]), s: tbin.MapS(tbin.Sc(kt), tbin.Sc(tbin.I32)), v: m, big: true})
		}
	}
	// structs with ids around the by-id threshold
	for _, ids := range [][]int16{{254, 255, 256}, {256, 257, 258}, {257, 256, 255}, {1, 255, 300}, {300, 2, 256, 1}, {1, 2, 3}, {1, 2, 3, 4, 5, 6, 8, 9, 10, 11},
		// ids on and next to the powers of two (growth steps of the by-id children table: capacity 16, 32, 64, 128)
		{1, 32}, {16}, {15, 17}, {1, 2, 3, 20, 64}, {5, 17, 64, 128}, {1, 31, 33}, {2, 63, 65, 127, 129}} {
		var fs []tbin.SField
		for i, id := range ids {
			t := []*tbin.Shape{tbin.Sc(tbin.I32), tbin.Sc(tbin.STRING), tbin.ListS(tbin.Sc(tbin.I16)), tbin.Sc(tbin.DOUBLE)}[i%4]
			fs = append(fs, tbin.SF(id, t))
		}
		s := tbin.StructS(fs...)
		g := &tbin.Gen{}
		out = append(out, value{name: "struct-ids" + fmt.Sprint(ids), s: s, v: g.Build(s, 2)})
	}
	return out
}

func (v *value) materialize() {
	if v.v != nil {
		return
	}
	// map<string,i32>#size/pattern
	var size int
	var pat string
	rest := strings.TrimPrefix(v.name, "map<string,i32>#")
	fmt.Sscanf(strings.Replace(rest, "/", " ", 1), "%d %s", &size, &pat)
	m := &tbin.Val{T: tbin.MAP, KT: tbin.STRING, ET: tbin.I32}
	for i, k := range strKeys(size, pat) {
		m.K = append(m.K, tbin.Str(k))
		m.L = append(m.L, tbin.I32v(int32(7000+i)))
	}
	v.v = m
}

func values(tier string) []value {
	var shapes []*tbin.Shape
	shapes = append(shapes, tbin.T1()...)
	t2 := tbin.T2()
	step := 3
	if tier == "thorough" {
		step = 1
	}
	for i := 0; i < len(t2); i += step {
		shapes = append(shapes, t2[i])
	}
	var out []value
	for _, s := range shapes {
		for _, n := range []int{0, 1, 3} {
			g := &tbin.Gen{}
			out = append(out, value{name: fmt.Sprintf("%s n=%d", s, n), s: s, v: g.Build(s, n)})
		}
	}
	out = append(out, bigValues()...)
	return out
}

type config struct {
	recurse                      bool
	byID, byHash, noscan, native bool
}

func (c config) opts() *generic.Options {
	return &generic.Options{StoreChildrenById: c.byID, StoreChildrenByHash: c.byHash, NotScanParentNode: c.noscan, UseNativeSkip: c.native}
}
func (c config) String() string {
	return fmt.Sprintf("recurse=%v,byid=%v,byhash=%v,noscan=%v,native=%v", c.recurse, c.byID, c.byHash, c.noscan, c.native)
}

// class is the configuration part of a signature: only the storage options, the load mode and
// NotScanParentNode (UseNativeSkip never changes which code of path.go runs).
func (c config) class() string {
	var p []string
	if c.recurse {
		p = append(p, "recurse")
	} else {
		p = append(p, "lazy")
	}
	if c.byID {
		p = append(p, "byid")
	}
	if c.byHash {
		p = append(p, "byhash")
	}
	if c.noscan && c.recurse {
		p = append(p, "noscan")
	}
	return strings.Join(p, "+")
}

func configs() []config {
	var out []config
	for _, r := range []bool{true, false} {
		for m := 0; m < 16; m++ {
			out = append(out, config{recurse: r, byID: m&1 != 0, byHash: m&2 != 0, noscan: m&4 != 0, native: m&8 != 0})
		}
	}
	return out
}

const chunk = 6

func (check) Groups(tier string, seed int64) []string {
	n := len(values(tier))
	var g []string
	for i := 0; i < n; i += chunk {
		g = append(g, fmt.Sprintf("values/%d-%d", i, i+chunk))
	}
	return g
}

type cdesc struct {
	Value  string `json:"value"`
	Config string `json:"config"`
	Model  string `json:"model,omitempty"`
}

func (check) Enumerate(tier string, seed int64, group int, yield func(core.Case) bool) {
	vals := values(tier)
	lo, hi := group*chunk, group*chunk+chunk
	if hi > len(vals) {
		hi = len(vals)
	}
	depth := 2
	if tier == "thorough" {
		depth = 4
	}
	for i := lo; i < hi; i++ {
		val := vals[i]
		for _, cfg := range configs() {
			val, cfg := val, cfg
			c := core.Case{
				Tag: cfg.class(),
				Desc: func() interface{} {
					val.materialize()
					ms := val.v.String()
					if len(ms) > 300 {
						ms = ms[:300] + "..."
					}
					return cdesc{val.name, cfg.String(), ms}
				},
				Run: func() core.Result {
					val.materialize()
					d := depth
					if val.big {
						d = 1
					}
					return run(val, cfg, d, vals)
				},
			}
			if !yield(c) {
				return
			}
		}
	}
}

// ---- helpers on the implementation side ----

type ctx struct {
	r    *core.Result
	cfg  config
	what string
	trig string
	// editPrev: the largest reuse partner; every edit history is replayed a second time on a tree that
	// was loaded with it first (non-initial start state: stale slots beyond the loaded range)
	editPrev      *value
	editPrevBytes []byte
}

func (c *ctx) viol(site, outcome, format string, a ...interface{}) {
	c.r.Add(site+"|"+c.trig+"|"+outcome, c.what+": "+format, a...)
}

func valKind(v *tbin.Val) string {
	switch v.T {
	case tbin.MAP:
		k := "map-otherkey"
		switch v.KT {
		case tbin.STRING:
			k = "map-strkey"
		case tbin.BYTE, tbin.I16, tbin.I32, tbin.I64:
			k = "map-intkey"
		}
		if len(v.L) > 16 {
			k += ">16"
		}
		return k
	case tbin.STRUCT:
		for _, f := range v.Fs {
			if f.ID >= 256 {
				return "struct-id>=256"
			}
		}
		return "struct"
	}
	return v.T.String()
}

func load(t tbin.Type, buf []byte, cfg config) (*generic.PathNode, error) {
	tree := &generic.PathNode{Node: generic.NewNode(thrift.Type(t), buf)}
	err := tree.Load(cfg.recurse, cfg.opts())
	return tree, err
}

// navigate follows a model path through the tree with the lookup API.
func navigate(tree *generic.PathNode, path []tutil.PE, opts *generic.Options) *generic.PathNode {
	cur := tree
	for _, e := range path {
		if cur == nil {
			return nil
		}
		cur = lookup(cur, e, opts)
	}
	return cur
}

func lookup(n *generic.PathNode, e tutil.PE, opts *generic.Options) *generic.PathNode {
	switch e.K {
	case 'f':
		return n.Field(thrift.FieldID(e.ID), opts)
	case 's':
		return n.GetByStr(e.S, opts)
	case 'k':
		return n.GetByInt(e.I, opts)
	case 'i':
		// list elements are stored sequentially: the i-th non-empty slot is not assumed, slot i is
		if e.I < len(n.Next) {
			return &n.Next[e.I]
		}
		return nil
	case 'b':
		for i := range n.Next {
			if n.Next[i].Path.Type() == generic.PathBinKey && bytes.Equal(n.Next[i].Path.Bin(), e.B) {
				return &n.Next[i]
			}
		}
		return nil
	}
	return nil
}

// ---- operations ----

type op struct {
	Kind string     // set | insert | listset | clear
	At   []tutil.PE // container position
	PE   tutil.PE   // child
	Val  *tbin.Val
	Trig string
	N    int // fill: number of fresh keys inserted one after the other
}

// fillKey: the i-th fresh key of a fill op.
func fillKey(kt tbin.Type, i int) tutil.PE {
	if kt == tbin.STRING {
		return tutil.PE{K: 's', S: fmt.Sprintf("fill%03d", i)}
	}
	return tutil.PE{K: 'k', I: 5000 + i}
}

func (o op) String() string {
	if o.Kind == "fill" {
		return fmt.Sprintf("fill(%s with %d fresh keys)", tutil.PathString(o.At), o.N)
	}
	s := fmt.Sprintf("%s(%s/%s", o.Kind, tutil.PathString(o.At), o.PE)
	if o.Val != nil {
		s += " := " + o.Val.String()
	}
	return s + ")"
}

func fresh(s *tbin.Shape, n int, salt int) *tbin.Val {
	g := &tbin.Gen{}
	for i := 0; i < 60+salt*13; i++ {
		g.Build(tbin.Sc(tbin.BOOL), 0)
	}
	return g.Build(s, n)
}

func isLeaf(v *tbin.Val) bool {
	return !(v.T == tbin.STRUCT || v.T == tbin.LIST || v.T == tbin.SET || v.T == tbin.MAP)
}

// containerPositions: root + (recursive) first-level containers.
type cpos struct {
	path []tutil.PE
	v    *tbin.Val
	s    *tbin.Shape
}

// touched: root children (by path element) that earlier ops of the history stored; they are raw nodes
// without loaded children, so they are not edited from inside.
func alphabet(m *tbin.Val, s *tbin.Shape, cfg config, touched map[string]bool, initial *tbin.Val) []op {
	// a container child that was loaded recursively keeps its loaded children (Next) even after its Node is
	// cleared or replaced: re-inserting under its key is the excluded "Node and Next disagree" scenario
	loadedContainer := func(at []tutil.PE, pe tutil.PE) bool {
		if !cfg.recurse {
			return false
		}
		cur := initial
		for _, e := range at {
			if cur = childOf(cur, e); cur == nil {
				return false
			}
		}
		c := childOf(cur, pe)
		return c != nil && !isLeaf(c)
	}
	buf := tbin.Bytes(m)
	var cps []cpos
	if !isLeaf(m) {
		cps = append(cps, cpos{nil, m, s})
		if cfg.recurse {
			for _, c := range tutil.Children(m, s, buf) {
				if !isLeaf(c.V) && c.PE.K != 'b' && !touched[c.PE.String()] {
					cps = append(cps, cpos{[]tutil.PE{c.PE}, c.V, c.S})
					break // one nested container is enough to reach the nested code paths
				}
			}
		}
	}
	var ops []op
	for _, cp := range cps {
		k := valKind(cp.v)
		ch := tutil.Children(cp.v, cp.s, buf)
		for i, c := range ch {
			if i >= 3 && len(ch) <= 16 {
				break
			}
			if len(ch) > 16 && i%7 != 0 {
				continue
			}
			leafOK := isLeaf(c.V) || !cfg.recurse
			if c.PE.K == 'b' {
				leafOK = false // no keyed setter for non-string/int keys: such children can only be cleared
			}
			if cp.v.T == tbin.STRUCT && c.PE.K == 'f' && !isLeaf(c.V) && cfg.recurse && !touched[c.PE.String()] && len(cp.path) == 0 {
				// a recursively loaded container FIELD replaced by a scalar of another type (the node keeps the children
				// of the old value; a scalar node is written from its own bytes all the same)
				for _, sv := range []*tbin.Val{tbin.Str("repl"), tbin.I32v(5)} {
					ops = append(ops, op{Kind: "set", At: cp.path, PE: c.PE, Val: sv, Trig: "container-field-replaced-by-scalar-in:" + k})
				}
			}
			if c.S != nil && leafOK && !loadedContainer(cp.path, c.PE) {
				nv := fresh(c.S, 1, 3+i)
				kind := "set"
				if c.PE.K == 'i' {
					kind = "listset"
				}
				ops = append(ops, op{Kind: kind, At: cp.path, PE: c.PE, Val: nv, Trig: "present-in:" + k})
			}
			ops = append(ops, op{Kind: "clear", At: cp.path, PE: c.PE, Trig: "present-in:" + k})
		}
		// filling: more fresh keys than the map has entries, one after the other (a table sized for the loaded
		// entries runs full)
		if cp.v.T == tbin.MAP && cp.s != nil && len(cp.path) == 0 && (cp.v.KT == tbin.STRING || cp.v.KT == tbin.I32 || cp.v.KT == tbin.I64 || cp.v.KT == tbin.I16) {
			ops = append(ops, op{Kind: "fill", At: cp.path, N: len(ch) + 1, Val: fresh(cp.s.Elem, 1, 9), Trig: "fill-in:" + k})
		}
		// insertion of an absent child
		switch cp.v.T {
		case tbin.STRUCT:
			ids := []int16{7, 256, 300}
			// the ids right behind the largest present one: with by-id storage that is where an appended child lands
			maxID := int16(0)
			for _, f := range cp.v.Fs {
				if f.ID > maxID {
					maxID = f.ID
				}
			}
			if maxID < 250 {
				ids = append(ids, maxID+1, maxID+2)
			}
			// ... and behind the largest id of the value as it was LOADED (the table was sized for that one)
			if iv := initial; iv != nil {
				for _, e := range cp.path {
					if iv = childOf(iv, e); iv == nil {
						break
					}
				}
				if iv != nil && iv.T == tbin.STRUCT {
					im := int16(0)
					for _, f := range iv.Fs {
						if f.ID > im {
							im = f.ID
						}
					}
					if im < 250 && im != maxID {
						ids = append(ids, im+1, im+2)
					}
				}
			}
			for _, id := range ids {
				if cp.v.FieldByID(id) == nil && !loadedContainer(cp.path, tutil.PE{K: 'f', ID: id}) {
					ops = append(ops, op{Kind: "insert", At: cp.path, PE: tutil.PE{K: 'f', ID: id}, Val: tbin.I32v(int32(id) * 3), Trig: fmt.Sprintf("absent-in:%s,id%s", k, idClass(id))})
				}
			}
		case tbin.MAP:
			if cp.s != nil {
				switch cp.v.KT {
				case tbin.STRING:
					// "": the key an empty slot would report
					for _, key := range []string{"newkey", ""} {
						has := false
						for _, x := range cp.v.K {
							if string(x.S) == key {
								has = true
							}
						}
						if !has {
							ops = append(ops, op{Kind: "insert", At: cp.path, PE: tutil.PE{K: 's', S: key}, Val: fresh(cp.s.Elem, 1, 9), Trig: "absent-in:" + k})
						}
					}
				case tbin.BYTE, tbin.I16, tbin.I32, tbin.I64:
					// -1 / 0: the keys an empty slot would report
					for _, key := range []int{111, -1, 0} {
						if key < 0 && cp.v.KT == tbin.BYTE {
							continue // byte keys are addressed as 0..255 by this harness: -1 would be a second spelling of 255
						}
						has := false
						for _, x := range cp.v.K {
							if int(x.I) == key {
								has = true
							}
						}
						if !has {
							ops = append(ops, op{Kind: "insert", At: cp.path, PE: tutil.PE{K: 'k', I: key}, Val: fresh(cp.s.Elem, 1, 9), Trig: "absent-in:" + k})
						}
					}
				}
			}
		}
	}
	return ops
}

func idClass(id int16) string {
	if id < 256 {
		return "<256"
	}
	if id == 256 {
		return "=256"
	}
	return ">256"
}

// applyModel returns the edited model (clone) for an op.
func applyModel(m *tbin.Val, o op) *tbin.Val {
	w := tbin.Clone(m)
	cur := w
	for _, e := range o.At {
		cur = childOf(cur, e)
		if cur == nil {
			return nil
		}
	}
	if o.Kind == "fill" {
		for i := 0; i < o.N; i++ {
			pe := fillKey(cur.KT, i)
			if indexOf(cur, pe) >= 0 {
				return nil
			}
			k := tbin.Str(pe.S)
			if pe.K == 'k' {
				k = &tbin.Val{T: cur.KT, I: int64(pe.I)}
			}
			cur.K = append(cur.K, k)
			cur.L = append(cur.L, tbin.Clone(o.Val))
		}
		return w
	}
	idx := indexOf(cur, o.PE)
	switch o.Kind {
	case "set", "listset":
		if idx < 0 {
			return nil
		}
		if cur.T == tbin.STRUCT {
			cur.Fs[idx].V = tbin.Clone(o.Val)
		} else {
			cur.L[idx] = tbin.Clone(o.Val)
		}
	case "clear":
		if idx < 0 {
			return nil
		}
		switch cur.T {
		case tbin.STRUCT:
			cur.Fs = append(cur.Fs[:idx:idx], cur.Fs[idx+1:]...)
		case tbin.MAP:
			cur.K = append(cur.K[:idx:idx], cur.K[idx+1:]...)
			cur.L = append(cur.L[:idx:idx], cur.L[idx+1:]...)
		default:
			cur.L = append(cur.L[:idx:idx], cur.L[idx+1:]...)
		}
	case "insert":
		if idx >= 0 {
			return nil
		}
		switch cur.T {
		case tbin.STRUCT:
			cur.Fs = append(cur.Fs, tbin.Field{ID: o.PE.ID, V: tbin.Clone(o.Val)})
		case tbin.MAP:
			var k *tbin.Val
			if o.PE.K == 's' {
				k = tbin.Str(o.PE.S)
			} else {
				k = &tbin.Val{T: cur.KT, I: int64(o.PE.I)}
			}
			cur.K = append(cur.K, k)
			cur.L = append(cur.L, tbin.Clone(o.Val))
		}
	}
	return w
}

func childOf(v *tbin.Val, e tutil.PE) *tbin.Val {
	i := indexOf(v, e)
	if i < 0 {
		return nil
	}
	if v.T == tbin.STRUCT {
		return v.Fs[i].V
	}
	return v.L[i]
}

func indexOf(v *tbin.Val, e tutil.PE) int {
	switch v.T {
	case tbin.STRUCT:
		for i := range v.Fs {
			if e.K == 'f' && v.Fs[i].ID == e.ID {
				return i
			}
		}
	case tbin.LIST, tbin.SET:
		if e.K == 'i' && e.I >= 0 && e.I < len(v.L) {
			return e.I
		}
	case tbin.MAP:
		for i := range v.K {
			switch e.K {
			case 's':
				if string(v.K[i].S) == e.S {
					return i
				}
			case 'k':
				k := int(v.K[i].I)
				if v.KT == tbin.BYTE {
					k = int(uint8(v.K[i].I))
				}
				if k == e.I {
					return i
				}
			case 'b':
				if bytes.Equal(tbin.Bytes(tbin.Clone(v.K[i])), e.B) {
					return i
				}
			}
		}
	}
	return -1
}

// applyImpl applies an op on the live tree. Clearing list elements keeps positions (slot stays, node emptied).
func applyImpl(tree *generic.PathNode, o op, cfg config, cleared map[string][]int) (exist bool, err error, missing bool) {
	opts := cfg.opts()
	at := navigate(tree, o.At, opts)
	if at == nil {
		return false, nil, true
	}
	node := typedNode
	switch o.Kind {
	case "fill":
		for i := 0; i < o.N && err == nil; i++ {
			core.Alive()
			if pe := fillKey(tbin.Type(at.Node.KeyType()), i); pe.K == 's' {
				_, err = at.SetByStr(pe.S, node(o.Val), opts)
			} else {
				_, err = at.SetByInt(pe.I, node(o.Val), opts)
			}
		}
	case "set", "insert":
		switch o.PE.K {
		case 'f':
			exist, err = at.SetField(thrift.FieldID(o.PE.ID), node(o.Val), opts)
		case 's':
			exist, err = at.SetByStr(o.PE.S, node(o.Val), opts)
		case 'k':
			exist, err = at.SetByInt(o.PE.I, node(o.Val), opts)
		}
	case "listset":
		c := lookup(at, o.PE, opts)
		if c == nil {
			return false, nil, true
		}
		c.Node = node(o.Val)
		exist = true
	case "clear":
		c := lookup(at, o.PE, opts)
		if c == nil {
			return false, nil, true
		}
		c.Node = generic.Node{}
		exist = true
	}
	return
}

// typedNode builds the node of a value the way an application assembles one: containers with children through
// generic.NewTypedNode (children built the same way), everything else from its encoding. The node is stored in the
// tree and must stay what it is while the tree is used (marshalled) later.
func typedNode(v *tbin.Val) generic.Node {
	raw := func() generic.Node { return generic.NewNode(thrift.Type(v.T), tbin.Bytes(tbin.Clone(v))) }
	var ch []generic.PathNode
	switch v.T {
	case tbin.LIST, tbin.SET:
		for i, e := range v.L {
			ch = append(ch, generic.PathNode{Path: generic.NewPathIndex(i), Node: typedNode(e)})
		}
		if len(ch) == 0 {
			return raw()
		}
		return generic.NewTypedNode(thrift.Type(v.T), thrift.Type(v.ET), 0, ch...)
	case tbin.MAP:
		for i, e := range v.L {
			k := v.K[i]
			var p generic.Path
			switch k.T {
			case tbin.STRING:
				p = generic.NewPathStrKey(string(k.S))
			case tbin.BYTE, tbin.I16, tbin.I32, tbin.I64:
				p = generic.NewPathIntKey(int(k.I))
			default:
				return raw()
			}
			ch = append(ch, generic.PathNode{Path: p, Node: typedNode(e)})
		}
		if len(ch) == 0 {
			return raw()
		}
		return generic.NewTypedNode(thrift.MAP, thrift.Type(v.ET), thrift.Type(v.KT), ch...)
	case tbin.STRUCT:
		for _, f := range v.Fs {
			ch = append(ch, generic.PathNode{Path: generic.NewPathFieldId(thrift.FieldID(f.ID)), Node: typedNode(f.V)})
		}
		if len(ch) == 0 {
			return raw()
		}
		return generic.NewTypedNode(thrift.STRUCT, 0, 0, ch...)
	}
	return raw()
}

// ---- the search ----

type hist struct {
	ops   []op
	model *tbin.Val
}

func run(val value, cfg config, maxDepth int, all []value) core.Result {
	// pools are part of the scenario ("pooled tree reuse"): deterministic LIFO pools, emptied per case
	vsync.Controlled = true
	vsync.Reset()
	r := core.Result{Class: "ok"}
	c := &ctx{r: &r, cfg: cfg, what: fmt.Sprintf("%s [%s]", val.name, cfg), trig: valKind(val.v) + "," + cfg.class()}
	input := tbin.Bytes(val.v)
	var states, transitions int64 = 1, 0

	// 1. load + marshal + lookups on the unedited tree
	c.loadMarshal(val, input, nil, "fresh")
	transitions++

	// 2. tree reuse: another value of the same root type loaded first on the same tree / pooled tree / other mode
	for _, prev := range reusePartners(val, all) {
		prev := prev
		prev.materialize()
		c.loadMarshal(val, input, &prev, "reuse")
		transitions += 3
		if pb := tbin.Bytes(tbin.Clone(prev.v)); len(pb) > len(c.editPrevBytes) {
			c.editPrev, c.editPrevBytes = &prev, pb
		}
	}

	// 3. edit histories
	seen := map[string]bool{val.v.String(): true}
	frontier := []hist{{model: val.v}}
	for d := 0; d < maxDepth; d++ {
		var next []hist
		for _, h := range frontier {
			touched := map[string]bool{}
			for _, po := range h.ops {
				if len(po.At) == 0 {
					touched[po.PE.String()] = true
					for i := 0; po.Kind == "fill" && i < po.N; i++ {
						touched[fillKey(h.model.KT, i).String()] = true
					}
				}
			}
			for _, o := range alphabet(h.model, val.s, cfg, touched, val.v) {
				nm := applyModel(h.model, o)
				if nm == nil {
					continue
				}
				transitions++
				ops := append(append([]op{}, h.ops...), o)
				ok := c.replay(val, input, ops, nm, false)
				if c.editPrev != nil {
					transitions++
					if !c.replay(val, input, ops, nm, true) {
						ok = false
					}
				}
				k := nm.String()
				if o.Kind == "clear" && o.PE.K == 'i' {
					continue // an emptied list slot keeps its position in the tree: no index-addressed successors
				}
				if ok && !seen[k] {
					seen[k] = true
					states++
					next = append(next, hist{ops: ops, model: nm})
				}
			}
		}
		frontier = next
	}
	r.Count("states", states)
	r.Count("transitions", transitions)
	r.Count("traces_validated_against_impl", transitions)
	r.Key = c.what
	r.Class = fmt.Sprintf("ok:%s", cfg.class())
	if len(r.Viol) > 0 {
		r.Class = "violation"
	}
	return r
}

func reusePartners(val value, all []value) []value {
	// same root type: the same shape with other sizes, and the first other shape with the same root type
	var out []value
	for _, o := range all {
		if o.name == val.name {
			continue
		}
		if o.s.String() == val.s.String() {
			out = append(out, o)
		}
	}
	// struct roots: always the dense ten-field struct (ids 1..11 without 7), so that a smaller struct loaded
	// after it has stale by-id slots right behind its own range
	if val.s.T == tbin.STRUCT && !val.big {
		for _, o := range all {
			if strings.HasPrefix(o.name, "struct-ids[1 2 3 4") && o.name != val.name {
				out = append(out, o)
			}
		}
	}
	cnt := 0
	for _, o := range all {
		if o.s.T == val.s.T && o.s.String() != val.s.String() && !o.big && !val.big {
			if o.v != nil && len(tbin.Bytes(tbin.Clone(o.v))) > 8 {
				out = append(out, o)
				cnt++
				if cnt >= 2 {
					break
				}
			}
		}
	}
	// prefer partners whose keys overlap (sequential families) and keep the list bounded
	if len(out) > 14 {
		var seq, rest []value
		for _, o := range out {
			if strings.Contains(o.name, "#seq") {
				seq = append(seq, o)
			} else {
				rest = append(rest, o)
			}
		}
		out = append(seq, rest...)
		if strings.Contains(val.name, "#seq") || len(out) > 14 {
			out = out[:14]
		}
	}
	return out
}

func (c *ctx) checkMarshal(site string, tree *generic.PathNode, want *tbin.Val, input []byte, identical bool) {
	out, err := tree.Marshal(c.cfg.opts())
	if err != nil {
		c.viol(site+".Marshal", "error", "%v", err)
		return
	}
	if poolpoison.Aliased(out) {
		c.viol(site+".Marshal", "result-aliases-pooled-buffer", "the %d bytes returned by Marshal change when the pooled buffers are overwritten", len(out))
	}
	c.compare(site+".Marshal", out, want, input, identical)
	// MarshalIntoBuffer appends after a dirty prefix
	buf := append(make([]byte, 0, 3), 0xAA, 0xBB)
	if err := tree.MarshalIntoBuffer(&buf, c.cfg.opts()); err != nil {
		c.viol(site+".MarshalIntoBuffer", "error", "%v", err)
		return
	}
	if len(buf) < 2 || buf[0] != 0xAA || buf[1] != 0xBB {
		c.viol(site+".MarshalIntoBuffer", "prefix-lost", "prefix overwritten: %x", buf[:min(len(buf), 8)])
		return
	}
	c.compare(site+".MarshalIntoBuffer", buf[2:], want, input, identical)
}

func min(a, b int) int {
	if a < b {
		return a
	}
	return b
}

func (c *ctx) compare(site string, out []byte, want *tbin.Val, input []byte, identical bool) {
	got, err := tbin.DecodeAll(out, want.T)
	if err != nil {
		c.viol(site, "malformed", "output does not decode: %v; %s", err, hx(out))
		return
	}
	if !tutil.EqualUnordered(got, want) {
		c.viol(site, "value-differs", "got %s want %s", trunc(got.String()), trunc(want.String()))
		return
	}
	if identical && !bytes.Equal(out, input) {
		c.viol(site, "not-byte-identical", "default options: output %s differs from input %s", hx(out), hx(input))
	}
}

func trunc(s string) string {
	if len(s) > 400 {
		return s[:400] + "..."
	}
	return s
}
func hx(b []byte) string {
	if len(b) > 120 {
		return fmt.Sprintf("%x..(%d bytes)", b[:120], len(b))
	}
	return fmt.Sprintf("%x", b)
}

// checkLookups: every present child of the root (and of the first nested container in recursive mode)
// is returned by the keyed lookup with the bytes last stored; absent keys give nil.
func (c *ctx) checkLookups(site string, tree *generic.PathNode, m *tbin.Val, s *tbin.Shape, edited bool) {
	opts := c.cfg.opts()
	buf := tbin.Bytes(m)
	check := func(n *generic.PathNode, v *tbin.Val, sh *tbin.Shape, depth int) {
		for _, ch := range tutil.Children(v, sh, buf) {
			if ch.PE.K == 'b' {
				continue
			}
			got := lookup(n, ch.PE, opts)
			api := map[byte]string{'f': "Field", 's': "GetByStr", 'k': "GetByInt", 'i': "Next[i]"}[ch.PE.K]
			if got == nil {
				c.viol(site+"."+api, "present-not-found", "child %s of %s not found", ch.PE, trunc(v.String()))
				continue
			}
			if got.IsError() {
				c.viol(site+"."+api, "error-on-present", "child %s: %s", ch.PE, got.Error())
				continue
			}
			if tbin.Type(got.Node.Type()) != ch.V.T {
				c.viol(site+"."+api, "wrong-type", "child %s type %v want %s", ch.PE, got.Node.Type(), ch.V.T)
				continue
			}
			skipRaw := c.cfg.recurse && c.cfg.noscan && !isLeaf(ch.V)
			if !skipRaw {
				if raw := got.Node.Raw(); !bytes.Equal(raw, buf[ch.V.Off:ch.V.End]) {
					c.viol(site+"."+api, "wrong-child", "child %s holds %s want %s", ch.PE, hx(raw), hx(buf[ch.V.Off:ch.V.End]))
				}
			}
		}
		// absent keys
		var abs []tutil.PE
		switch v.T {
		case tbin.STRUCT:
			abs = []tutil.PE{{K: 'f', ID: 9}, {K: 'f', ID: 255}, {K: 'f', ID: 256}, {K: 'f', ID: 1000}}
		case tbin.MAP:
			if v.KT == tbin.STRING {
				abs = []tutil.PE{{K: 's', S: "absent-key"}, {K: 's', S: ""}}
			} else if v.KT == tbin.BYTE || v.KT == tbin.I16 || v.KT == tbin.I32 || v.KT == tbin.I64 {
				abs = []tutil.PE{{K: 'k', I: 123456789}, {K: 'k', I: -3}}
			}
		}
		for _, e := range abs {
			if indexOf(v, e) >= 0 {
				continue
			}
			api := map[byte]string{'f': "Field", 's': "GetByStr", 'k': "GetByInt"}[e.K]
			pi := core.Catch(func() {
				if got := lookup(n, e, opts); got != nil && !got.IsError() && !got.IsEmpty() {
					c.viol(site+"."+api, "absent-found", "absent key %s returned a node of type %v", e, got.Node.Type())
				}
			})
			if pi != nil {
				c.viol(site+"."+api, "absent:panic@"+pi.Site+":"+core.PanicClass(pi.Val), "lookup of absent %s panicked: %s", e, pi.Val)
			}
		}
	}
	if isLeaf(m) {
		return
	}
	check(tree, m, s, 0)
	if c.cfg.recurse {
		for _, ch := range tutil.Children(m, s, buf) {
			if !isLeaf(ch.V) && ch.PE.K != 'b' {
				if n := lookup(tree, ch.PE, opts); n != nil && !n.IsError() {
					check(n, ch.V, ch.S, 1)
				}
				break
			}
		}
	}
}

// loadMarshal: Load (optionally after a previous load of another value on the same tree) then Marshal + lookups.
func (c *ctx) loadMarshal(val value, input []byte, prev *value, site string) {
	identical := !c.cfg.byID && !c.cfg.byHash
	if prev == nil {
		pi := core.Catch(func() {
			tree, err := load(val.v.T, append([]byte{}, input...), c.cfg)
			if err != nil {
				c.viol("Load", "error", "%v", err)
				return
			}
			c.checkMarshal("Load", tree, val.v, input, identical)
			c.checkLookups("Load", tree, val.v, val.s, false)
		})
		if pi != nil {
			c.viol("Load", "panic@"+pi.Site+":"+core.PanicClass(pi.Val), "panic %s\n%s", pi.Val, pi.Stack)
		}
		return
	}
	pbytes := tbin.Bytes(tbin.Clone(prev.v))
	rel := "same-size"
	if len(pbytes) > len(input) {
		rel = "after-larger"
	} else if len(pbytes) < len(input) {
		rel = "after-smaller"
	}
	for _, mode := range []string{"same-tree", "same-tree-other-mode", "pooled"} {
		mode := mode
		site := "Reload(" + mode + "," + rel + ")"
		pi := core.Catch(func() {
			var tree *generic.PathNode
			pcfg := c.cfg
			if mode == "same-tree-other-mode" {
				pcfg.recurse = !pcfg.recurse
			}
			if mode == "pooled" {
				tree = generic.NewPathNode()
				tree.Node = generic.NewNode(thrift.Type(prev.v.T), pbytes)
			} else {
				tree = &generic.PathNode{Node: generic.NewNode(thrift.Type(prev.v.T), pbytes)}
			}
			if err := tree.Load(pcfg.recurse, pcfg.opts()); err != nil {
				return // the previous load is checked in its own case
			}
			if mode == "pooled" {
				generic.FreePathNode(tree)
				tree = generic.NewPathNode()
			}
			tree.Node = generic.NewNode(thrift.Type(val.v.T), append([]byte{}, input...))
			if err := tree.Load(c.cfg.recurse, c.cfg.opts()); err != nil {
				c.viol(site, "error", "%v", err)
				return
			}
			c.checkMarshal(site, tree, val.v, input, identical)
			c.checkLookups(site, tree, val.v, val.s, false)
			if mode == "pooled" {
				generic.FreePathNode(tree)
			}
		})
		if pi != nil {
			c.viol(site, "panic@"+pi.Site+":"+core.PanicClass(pi.Val), "after loading %s: panic %s\n%s", prev.name, pi.Val, pi.Stack)
		}
	}
}

// replay builds a fresh tree, applies the history and checks marshal + lookups against the model.
func (c *ctx) replay(val value, input []byte, ops []op, want *tbin.Val, reused bool) bool {
	last := ops[len(ops)-1]
	save := c.trig
	c.trig = last.Trig + "," + c.cfg.class()
	defer func() { c.trig = save }()
	var hs []string
	for _, o := range ops {
		hs = append(hs, o.String())
	}
	whatSave := c.what
	c.what = fmt.Sprintf("%s after %v", whatSave, hs)
	pre := ""
	if reused {
		pre = "Reused."
		c.what = fmt.Sprintf("%s on a tree that had loaded %s before, after %v", whatSave, c.editPrev.name, hs)
	}
	defer func() { c.what = whatSave }()
	ok := true
	nviol := len(c.r.Viol)
	pi := core.Catch(func() {
		var tree *generic.PathNode
		var err error
		if reused {
			tree = &generic.PathNode{Node: generic.NewNode(thrift.Type(c.editPrev.v.T), append([]byte{}, c.editPrevBytes...))}
			if tree.Load(c.cfg.recurse, c.cfg.opts()) != nil {
				return // the partner's own load is judged in its own case
			}
			tree.Node = generic.NewNode(thrift.Type(val.v.T), append([]byte{}, input...))
			err = tree.Load(c.cfg.recurse, c.cfg.opts())
		} else {
			tree, err = load(val.v.T, append([]byte{}, input...), c.cfg)
		}
		if err != nil {
			ok = false
			return
		}
		m := val.v
		for i, o := range ops {
			nm := applyModel(m, o)
			exist, err, missing := applyImpl(tree, o, c.cfg, nil)
			site := pre + "Set"
			switch o.PE.K {
			case 'f':
				site = pre + "SetField"
			case 's':
				site = pre + "SetByStr"
			case 'k':
				site = pre + "SetByInt"
			}
			if o.Kind == "clear" || o.Kind == "listset" {
				site = pre + "Assign"
			}
			if i == len(ops)-1 {
				if missing {
					c.viol(site, "target-not-found", "lookup of the target %s/%s returned nil", tutil.PathString(o.At), o.PE)
					ok = false
					return
				}
				if err != nil {
					c.viol(site, "error", "%v", err)
					ok = false
					return
				}
				_ = exist // the statement says nothing about the returned flag (a cleared slot still "exists")
			} else if missing || err != nil {
				ok = false
				return
			}
			m = nm
		}
		c.checkMarshal(pre+"Edit", tree, want, input, false)
		c.checkLookupsEdited(pre, tree, want, val.s)
	})
	if pi != nil {
		c.viol(pre+"Edit", "panic@"+pi.Site+":"+core.PanicClass(pi.Val), "panic %s\n%s", pi.Val, pi.Stack)
		ok = false
	}
	if len(c.r.Viol) > nviol {
		ok = false
	}
	return ok
}

// checkLookupsEdited: after edits, keyed lookups on the root return the child last stored (by value).
func (c *ctx) checkLookupsEdited(pre string, tree *generic.PathNode, m *tbin.Val, s *tbin.Shape) {
	if isLeaf(m) || m.T == tbin.LIST || m.T == tbin.SET {
		return
	}
	opts := c.cfg.opts()
	buf := tbin.Bytes(m)
	for _, ch := range tutil.Children(m, nil, buf) {
		if ch.PE.K == 'b' {
			continue
		}
		api := map[byte]string{'f': "Field", 's': "GetByStr", 'k': "GetByInt"}[ch.PE.K]
		got := lookup(tree, ch.PE, opts)
		if got == nil || got.IsError() || got.IsEmpty() {
			c.viol(pre+"Edit."+api, "present-not-found", "child %s of the edited tree not returned", ch.PE)
			continue
		}
		if c.cfg.recurse && c.cfg.noscan && !isLeaf(ch.V) {
			continue
		}
		if len(got.Next) == 0 {
			if raw := got.Node.Raw(); !bytes.Equal(raw, buf[ch.V.Off:ch.V.End]) {
				// children that were loaded keep their original bytes; compare by decoded value
				gv, err := tbin.DecodeAll(raw, ch.V.T)
				if err != nil || !tutil.EqualUnordered(gv, ch.V) {
					c.viol(pre+"Edit."+api, "wrong-child", "child %s holds %s want %s", ch.PE, hx(raw), hx(buf[ch.V.Off:ch.V.End]))
				}
			}
		}
	}
}

var _ = sort.Strings
