// Package c01: Thrift generic reads return exactly what the bytes encode.
package c01

import (
	"bytes"
	"fmt"
	"strings"
	"hash/crc32"

	"github.com/cloudwego/dynamicgo/thrift"
	"github.com/cloudwego/dynamicgo/thrift/generic"

	"verif/checks/tutil"
	"verif/engine/core"
	"verif/ref/tbin"
)

type check struct{}

func init() { core.Register(check{}) }

func (check) ID() string    { return "C01" }
func (check) Level() string { return "exploration" }
func (check) Rule() string {
	return "for every shape in Scalars u T(1) u T(2) (thorough: + T(3) subset), container size n in 0..3 (position-distinct elements), plus a variant with the first field of every struct absent: every root-to-node path and every invalid last step (absent field/index=len,len+1,-1,2^31/absent key; every wrong path kind; absent-inner) through Node/Value GetByPath (id- and name-addressed, bin-key twins), the stepwise API (Field/FieldByName/Index/GetByStr/GetByInt/GetByRaw), bulk lookups (Fields/Indexes/Gets/GetMany/GetTree: every ordered selection of <=3 children + an absent one), Children (lazy/recursive), Foreach/ForeachKV, Interface/List/StrMap/IntMap/InterfaceMap/Len/typed casts, under every combination of the read options; oracle = type, value and byte span (offset+length inside the input) of ref/tbin. A case = (shape, size, api family); non-trivial if it performed at least one API call on a container or scalar; api_calls counts individual calls. Later additions: lookups in two hops from every inner node, mixed key spellings in bulk lookups, containers of more than 64 children, dirty result slices (scalar children of a recursive listing must carry no children). Thorough tier: container sizes 4, 5, 16, 17 (shapes of depth <= 2 for 16 / 17). Round 10: bulk requests that mix field ids with a path of another kind. Round 11: 1100-element containers of structs / lists; raw string keys with a wrong length prefix."
}
func (check) Assumptions() []string {
	return []string{"reference = ref/tbin span table (cross-checked against cloudwego/gopkg at self-check)", "absent element: any error result is accepted (the API uses ErrNotFound and ErrInvalidParam interchangeably for out-of-range indexes); present element: must be a non-error result with exact type+span", "BYTE values are presented as uint8 by the library (Interface() -> int 0..255)"}
}

func shapes(tier string) []*tbin.Shape {
	var all []*tbin.Shape
	all = append(all, tbin.Scalars()...)
	all = append(all, tbin.T1()...)
	all = append(all, tbin.T2()...)
	all = append(all, tbin.T3Small()...)
	if tier == "thorough" {
		all = append(all, tbin.Compose(tbin.T2(), false)...)
	}
	all = append(all, wideShapes...)
	all = append(all, longShapes...)
	return all
}

// longShapes: containers of STRUCT / container elements with more elements (1100) than any per-value depth or
// size budget of the skipper counts to (1023 / 1024), followed by a sibling field that every read has to skip to.
var longShapes = []*tbin.Shape{
	tbin.StructS(tbin.SF(1, tbin.ListS(tbin.StructS(tbin.SF(1, tbin.Sc(tbin.I32))))), tbin.SF(2, tbin.Sc(tbin.STRING))),
	tbin.StructS(tbin.SF(1, tbin.SetS(tbin.ListS(tbin.Sc(tbin.I16)))), tbin.SF(2, tbin.Sc(tbin.I32))),
}

func isLong(s *tbin.Shape) bool {
	for _, w := range longShapes {
		if w == s {
			return true
		}
	}
	return false
}

// wideShapes: containers with more children than a machine word has bits (70 / 130 struct fields; lists, sets
// and maps that are built with 70 elements whatever the size parameter says): bulk lookups of ALL children.
var wideShapes = func() []*tbin.Shape {
	mk := func(n int) *tbin.Shape {
		var fs []tbin.SField
		for i := 1; i <= n; i++ {
			t := tbin.Sc(tbin.I32)
			if i%7 == 0 {
				t = tbin.Sc(tbin.STRING)
			}
			fs = append(fs, tbin.SF(int16(i), t))
		}
		return tbin.StructS(fs...)
	}
	return []*tbin.Shape{mk(70), mk(130), tbin.ListS(tbin.Sc(tbin.I32)), tbin.SetS(tbin.Sc(tbin.I64)), tbin.MapS(tbin.Sc(tbin.I32), tbin.Sc(tbin.I32)), tbin.MapS(tbin.Sc(tbin.STRING), tbin.Sc(tbin.I16))}
}()

func isWide(s *tbin.Shape) bool {
	for _, w := range wideShapes {
		if w == s {
			return true
		}
	}
	return false
}

const chunk = 8

var families = []string{"getbypath", "invalid", "step", "many", "children", "foreach", "iface"}

func (check) Groups(tier string, seed int64) []string {
	n := len(shapes(tier))
	var g []string
	for i := 0; i < n; i += chunk {
		g = append(g, fmt.Sprintf("shapes/%d-%d", i, i+chunk))
	}
	return g
}

type cdesc struct {
	Shape  string `json:"shape"`
	N      int    `json:"n"`
	Drop   int    `json:"variant"`
	Family string `json:"family"`
	Value  string `json:"value"`
}

// dropFirst removes the first field of every struct (fields declared but absent from the message).
func dropFirst(v *tbin.Val) {
	if v.T == tbin.STRUCT && len(v.Fs) > 0 {
		v.Fs = v.Fs[1:]
	}
	for _, e := range v.L {
		dropFirst(e)
	}
	for _, e := range v.K {
		dropFirst(e)
	}
	for _, f := range v.Fs {
		dropFirst(f.V)
	}
}

func hasStruct(s *tbin.Shape) bool {
	if s.T == tbin.STRUCT {
		return true
	}
	if s.Elem != nil && hasStruct(s.Elem) {
		return true
	}
	if s.Key != nil && hasStruct(s.Key) {
		return true
	}
	return false
}

func (check) Enumerate(tier string, seed int64, group int, yield func(core.Case) bool) {
	all := shapes(tier)
	lo, hi := group*chunk, group*chunk+chunk
	if hi > len(all) {
		hi = len(all)
	}
	sizes := []int{0, 1, 2, 3}
	if tier == "thorough" {
		// container sizes on both sides of the thresholds of the indexed child storage (16 / 17)
		sizes = append(sizes, 4, 5, 16, 17)
	}
	for _, s := range all[lo:hi] {
		for _, n := range sizes {
			if n > 1 && s.Depth() == 0 {
				continue
			}
			if n > 5 && s.Depth() > 2 {
				continue // 17^3 leaves per value: depth <= 2 only
			}
			if isLong(s) && n != 1 {
				continue
			}
			for _, drop := range []int{0, 1, 2, 3} {
				if n > 3 && drop != 0 {
					continue
				}
				if drop == 1 && (!hasStruct(s) || n != 2) {
					continue
				}
				if drop == 3 && (!hasIntKeyMap(s) || n != 2) {
					continue
				}
				if drop == 2 && n != 0 && n != 2 {
					continue
				}
				if drop == 2 && n == 0 && s.Depth() != 0 {
					continue
				}
				for _, fam := range families {
					s, n, drop, fam := s, n, drop, fam
					c := core.Case{
						Tag: fam,
						Desc: func() interface{} {
							v := build(s, n, drop)
							return cdesc{s.String(), n, drop, fam, v.String()}
						},
						Run: func() core.Result { return run(s, n, drop, fam) },
					}
					if !yield(c) {
						return
					}
				}
			}
		}
	}
}

func hasIntKeyMap(s *tbin.Shape) bool {
	if s.T == tbin.MAP && (s.Key.T == tbin.I16 || s.Key.T == tbin.I32 || s.Key.T == tbin.I64) {
		return true
	}
	if s.Elem != nil && hasIntKeyMap(s.Elem) {
		return true
	}
	if s.Key != nil && hasIntKeyMap(s.Key) {
		return true
	}
	for _, f := range s.Fields {
		if hasIntKeyMap(f.S) {
			return true
		}
	}
	return false
}

// negateKeys makes every i16 / i32 / i64 map key negative (k -> -k-1).
func negateKeys(v *tbin.Val) {
	if v.T == tbin.MAP && (v.KT == tbin.I16 || v.KT == tbin.I32 || v.KT == tbin.I64) {
		for _, k := range v.K {
			if k.I >= 0 {
				k.I = -k.I - 1
			}
		}
	}
	for _, e := range v.L {
		negateKeys(e)
	}
	for _, e := range v.K {
		negateKeys(e)
	}
	for _, f := range v.Fs {
		negateKeys(f.V)
	}
}

// variant 0: position-distinct values; 1: first field of every struct absent; 2: boundary scalars; 3: negative integer map keys
func build(s *tbin.Shape, n int, variant int) *tbin.Val {
	g := &tbin.Gen{Boundary: variant == 2}
	if isWide(s) && s.T != tbin.STRUCT && n > 0 {
		n = 70
	}
	if isLong(s) && n > 0 {
		// the outer container gets 1100 elements, whatever is inside them one
		v := g.Build(s, 1)
		c := v.Fs[0].V
		for len(c.L) < 1100 {
			c.L = append(c.L, g.Build(s.Fields[0].S.Elem, 1))
		}
		return v
	}
	v := g.Build(s, n)
	if variant == 1 {
		dropFirst(v)
	}
	if variant == 3 {
		negateKeys(v)
	}
	return v
}

// ctx carries one case.
type ctx struct {
	r               *core.Result
	s               *tbin.Shape // shape of the value under Root.f1
	v               *tbin.Val   // the wrapper struct value {1: value}
	buf             []byte      // encoding of the wrapper
	desc            *thrift.TypeDescriptor
	calls           int64
	what            string
	present, absent int64
}

func (c *ctx) viol(api, trigger, outcome, format string, a ...interface{}) {
	c.r.Add(api+"|"+trigger+"|"+outcome, c.what+": "+format, a...)
}

// guard runs f; a panic is a violation.
func (c *ctx) guard(api, trigger string, f func()) {
	c.calls++
	if pi := core.Catch(f); pi != nil {
		c.viol(api, trigger, "panic@"+pi.Site+":"+core.PanicClass(pi.Val), "panic %s\n%s", pi.Val, pi.Stack)
	}
}

// checkNode compares a result node with the model value it must denote.
func (c *ctx) checkNode(api, trigger string, n generic.Node, want *tbin.Val) {
	c.present++
	if n.IsError() {
		if n.IsErrNotFound() {
			c.viol(api, trigger, "not-found-on-present", "want %s at [%d,%d) got not-found", want, want.Off, want.End)
		} else {
			c.viol(api, trigger, "error-on-present", "want %s got error %v", want, n.Error())
		}
		return
	}
	if tbin.Type(n.Type()) != want.T {
		c.viol(api, trigger, "wrong-type", "want type %s got %v", want.T, n.Type())
		return
	}
	raw := n.Raw()
	off, ok := tutil.SpanOf(c.buf, raw)
	if !ok || off != want.Off || len(raw) != want.End-want.Off {
		c.viol(api, trigger, "wrong-span", "want span [%d,%d) of %s got off=%d len=%d inside=%v", want.Off, want.End, want, off, len(raw), ok)
		return
	}
	if want.T == tbin.LIST || want.T == tbin.SET {
		if tbin.Type(n.ElemType()) != want.ET {
			c.viol(api, trigger, "wrong-elemtype", "want %s got %v", want.ET, n.ElemType())
		}
	}
	if want.T == tbin.MAP {
		if tbin.Type(n.ElemType()) != want.ET || tbin.Type(n.KeyType()) != want.KT {
			c.viol(api, trigger, "wrong-elemtype", "want %s,%s got %v,%v", want.KT, want.ET, n.KeyType(), n.ElemType())
		}
	}
}

func (c *ctx) checkAbsent(api, trigger string, n generic.Node) {
	c.absent++
	if !n.IsError() {
		raw := n.Raw()
		off, _ := tutil.SpanOf(c.buf, raw)
		c.viol(api, trigger, "non-error", "element is absent / path does not fit, got non-error node type=%v off=%d len=%d", n.Type(), off, len(raw))
	}
}

func run(s *tbin.Shape, n int, drop int, fam string) core.Result {
	r := core.Result{Class: "ok", Key: fmt.Sprintf("%s|%d|%v|%s", s, n, drop, fam)}
	inner := build(s, n, drop)
	wrapShape := tbin.StructS(tbin.SF(1, s))
	wrap := tbin.Struct(tbin.F(1, inner))
	buf := tbin.Bytes(wrap)
	sum := crc32.ChecksumIEEE(buf)
	c := &ctx{r: &r, s: wrapShape, v: wrap, buf: buf, what: fmt.Sprintf("%s n=%d variant=%d", s, n, drop)}
	if pi := core.Catch(func() { c.desc = tutil.RootDesc(s) }); pi != nil {
		r.Add("harness|desc|panic", "descriptor build failed: %s", pi.Val)
		return r
	}
	defer func() { generic.UseNativeSkipForGet = false }()
	switch fam {
	case "getbypath":
		c.famGetByPath()
	case "invalid":
		c.famInvalid()
	case "step":
		c.famStep()
	case "many":
		c.famMany()
	case "children":
		c.famChildren()
		c.famChildrenIndexed()
	case "foreach":
		c.famForeach()
	case "iface":
		c.famIface()
	}
	if crc32.ChecksumIEEE(buf) != sum {
		r.Add(fam+"|any|input-modified", "%s: input bytes changed by read operations", c.what)
	}
	r.Count("api_calls", c.calls)
	if len(r.Viol) > 0 {
		r.Class = "violation"
	}
	if c.calls == 0 {
		r.Key = ""
		r.Class = "no-calls"
	} else if r.Class == "ok" {
		r.Class = fmt.Sprintf("%s:present-checked=%v,absent-checked=%v", fam, c.present > 0, c.absent > 0)
	}
	return r
}

func (c *ctx) root() generic.Node   { return generic.NewNode(thrift.STRUCT, c.buf) }
func (c *ctx) rootV() generic.Value { return generic.NewValue(c.desc, c.buf) }

func kindOf(v *tbin.Val) string {
	if v.T == tbin.MAP {
		switch v.KT {
		case tbin.STRING:
			return "map-strkey"
		case tbin.BYTE, tbin.I16, tbin.I32, tbin.I64:
			return "map-intkey"
		default:
			return "map-otherkey"
		}
	}
	return v.T.String()
}

// pathVariants: natural path; all-bin-key twin (if there is a map step); name-addressed twin (Value only).
func (c *ctx) variants(p tutil.Pos) (natural, bin, named []tutil.PE) {
	natural = p.Path
	// recompute alternative elements by walking the model
	v, s := c.v, c.s
	hasMap, hasField := false, false
	for _, e := range p.Path {
		var hit *tutil.Child
		ch := tutil.Children(v, s, c.buf)
		for i := range ch {
			if ch[i].PE.K == e.K && ch[i].PE.ID == e.ID && ch[i].PE.I == e.I && ch[i].PE.S == e.S && bytes.Equal(ch[i].PE.B, e.B) {
				hit = &ch[i]
				break
			}
		}
		if hit == nil {
			return natural, nil, nil
		}
		be, ne := e, e
		if hit.Bin.K != 0 {
			be = hit.Bin
			hasMap = true
		}
		if e.K == 'f' && hit.PE.Name != "" {
			ne = tutil.PE{K: 'n', Name: hit.PE.Name}
			hasField = true
		}
		bin = append(bin, be)
		named = append(named, ne)
		v, s = hit.V, hit.S
	}
	if !hasMap {
		bin = nil
	}
	if !hasField {
		named = nil
	}
	return
}

func (c *ctx) famGetByPath() {
	for _, native := range []bool{false, true} {
		generic.UseNativeSkipForGet = native
		for _, p := range tutil.Positions(c.v, c.s, c.buf) {
			p := p
			nat, bin, named := c.variants(p)
			trig := "present:" + kindOf(p.V)
			c.guard("Node.GetByPath", trig, func() {
				c.checkNode("Node.GetByPath", trig, c.root().GetByPath(tutil.Paths(nat)...), p.V)
			})
			c.guard("Value.GetByPath", trig, func() {
				v := c.rootV().GetByPath(tutil.Paths(nat)...)
				c.checkNode("Value.GetByPath", trig, v.Node, p.V)
				c.checkDesc("Value.GetByPath", trig, v, p)
			})
			// the same node reached in two hops: from every intermediate node on the way (whose byte window ends
			// where that node ends, not where the message ends) the rest of the path must lead to it as well
			for k := 1; k < len(nat); k++ {
				k := k
				c.guard("Node.GetByPath", trig+",from-inner-node", func() {
					mid := c.root().GetByPath(tutil.Paths(nat[:k])...)
					if mid.IsError() {
						return // judged by the direct lookup of that node
					}
					c.checkNode("Node.GetByPath", trig+",from-inner-node", mid.GetByPath(tutil.Paths(nat[k:])...), p.V)
				})
				c.guard("Value.GetByPath", trig+",from-inner-node", func() {
					mid := c.rootV().GetByPath(tutil.Paths(nat[:k])...)
					if mid.IsError() {
						return
					}
					c.checkNode("Value.GetByPath", trig+",from-inner-node", mid.GetByPath(tutil.Paths(nat[k:])...).Node, p.V)
				})
			}
			if bin != nil {
				c.guard("Node.GetByPath", trig+",binkey", func() {
					c.checkNode("Node.GetByPath", trig+",binkey", c.root().GetByPath(tutil.Paths(bin)...), p.V)
				})
				c.guard("Value.GetByPath", trig+",binkey", func() {
					c.checkNode("Value.GetByPath", trig+",binkey", c.rootV().GetByPath(tutil.Paths(bin)...).Node, p.V)
				})
			}
			if named != nil {
				c.guard("Value.GetByPath", trig+",byname", func() {
					v := c.rootV().GetByPath(tutil.Paths(named)...)
					c.checkNode("Value.GetByPath", trig+",byname", v.Node, p.V)
					c.checkDesc("Value.GetByPath", trig+",byname", v, p)
				})
			}
		}
	}
}

func (c *ctx) checkDesc(api, trigger string, v generic.Value, p tutil.Pos) {
	if v.IsError() {
		return
	}
	if v.Desc == nil {
		c.viol(api, trigger, "nil-desc", "result value has no descriptor")
		return
	}
	if tbin.Type(v.Desc.Type()) != p.V.T {
		c.viol(api, trigger, "wrong-desc", "descriptor type %v want %s", v.Desc.Type(), p.V.T)
	}
	if p.S != nil && p.S.T == tbin.STRING && v.Desc.IsBinary() != p.S.Binary {
		c.viol(api, trigger, "wrong-desc", "descriptor binary=%v want %v", v.Desc.IsBinary(), p.S.Binary)
	}
}

// invalidSteps lists last steps that do not denote an element of v: (element, trigger class).
func invalidSteps(v *tbin.Val, s *tbin.Shape, buf []byte) (abs []tutil.PE, absTrig []string, wrong []tutil.PE, wrongTrig []string) {
	k := kindOf(v)
	add := func(e tutil.PE, t string) { abs = append(abs, e); absTrig = append(absTrig, "absent:"+t+"-in-"+k) }
	addW := func(e tutil.PE, t string) {
		wrong = append(wrong, e)
		wrongTrig = append(wrongTrig, "wrongkind:"+t+"-on-"+k)
	}
	switch v.T {
	case tbin.STRUCT:
		// declared but absent ids (when drop) and an id never declared
		if s != nil {
			for _, f := range s.Fields {
				if v.FieldByID(f.ID) == nil {
					add(tutil.PE{K: 'f', ID: f.ID, Name: f.FName()}, "declared-field")
				}
			}
		}
		add(tutil.PE{K: 'f', ID: 999}, "undeclared-field")
		add(tutil.PE{K: 'f', ID: 0}, "undeclared-field")
	case tbin.LIST, tbin.SET:
		add(tutil.PE{K: 'i', I: len(v.L)}, "index=len")
		add(tutil.PE{K: 'i', I: len(v.L) + 1}, "index>len")
		add(tutil.PE{K: 'i', I: -1}, "index=-1")
		add(tutil.PE{K: 'i', I: 1 << 31}, "index=2^31")
	case tbin.MAP:
		switch v.KT {
		case tbin.STRING:
			add(tutil.PE{K: 's', S: "nokey"}, "strkey")
			add(tutil.PE{K: 's', S: ""}, "strkey")
			if len(v.K) > 0 {
				add(tutil.PE{K: 's', S: string(v.K[0].S) + "x"}, "strkey-extension")
				add(tutil.PE{K: 's', S: string(v.K[0].S[:len(v.K[0].S)-1])}, "strkey-prefix")
			}
		case tbin.BYTE, tbin.I16, tbin.I32, tbin.I64:
			// (with large values the generator's byte counter wraps: only keys that really are absent)
			hasKey := func(x int64) bool {
				for _, kk := range v.K {
					if kk.I == x || (v.KT == tbin.BYTE && int8(kk.I) == int8(x)) {
						return true
					}
				}
				return false
			}
			for _, x := range []int{0, -7} {
				if !hasKey(int64(x)) {
					add(tutil.PE{K: 'k', I: x}, "intkey")
				}
			}
			if len(v.K) > 0 {
				// keys that alias a present key after truncation to the key width / to 32 bits
				k0 := int(v.K[0].I)
				if v.KT == tbin.BYTE {
					k0 = int(uint8(v.K[0].I))
				}
				width := map[tbin.Type]uint{tbin.BYTE: 8, tbin.I16: 16, tbin.I32: 32, tbin.I64: 32}[v.KT]
				add(tutil.PE{K: 'k', I: k0 + 1<<width}, "intkey-alias-high-bits")
				add(tutil.PE{K: 'k', I: k0 - 1<<width}, "intkey-alias-high-bits")
			}
		}
		add(tutil.PE{K: 'b', B: []byte{0xde, 0xad}}, "binkey")
		add(tutil.PE{K: 'b', B: []byte{}}, "binkey-empty")
		if len(v.K) > 0 {
			// raw keys that are a proper prefix / a one-byte extension of a present key's encoding (a truncated or
			// narrower-width key must not match by prefix)
			kb := tbin.Bytes(tbin.Clone(v.K[0])) // Encode records spans in the value: work on a copy
			if len(kb) > 1 {
				add(tutil.PE{K: 'b', B: append([]byte{}, kb[:len(kb)-1]...)}, "binkey-prefix")
				add(tutil.PE{K: 'b', B: append([]byte{}, kb[:len(kb)/2]...)}, "binkey-prefix")
			}
			add(tutil.PE{K: 'b', B: append(append([]byte{}, kb...), 0)}, "binkey-extension")
			if v.KT == tbin.STRING && len(kb) >= 5 {
				// the bytes of a present string key behind a length prefix that does not fit them
				for _, f := range []func(b []byte){func(b []byte) { b[3] += 9 }, func(b []byte) { b[0] |= 0x80 }, func(b []byte) { b[2] ^= 1 }} {
					w := append([]byte{}, kb...)
					f(w)
					add(tutil.PE{K: 'b', B: w}, "binkey-wrong-length-prefix")
				}
			}
		}
	}
	// wrong kinds
	if v.T != tbin.STRUCT {
		addW(tutil.PE{K: 'f', ID: 1}, "field")
	}
	if v.T != tbin.LIST && v.T != tbin.SET {
		addW(tutil.PE{K: 'i', I: 0}, "index")
	}
	if !(v.T == tbin.MAP && v.KT == tbin.STRING) {
		addW(tutil.PE{K: 's', S: "a"}, "strkey")
	}
	if !(v.T == tbin.MAP && (v.KT == tbin.BYTE || v.KT == tbin.I16 || v.KT == tbin.I32 || v.KT == tbin.I64)) {
		addW(tutil.PE{K: 'k', I: 1}, "intkey")
	}
	if v.T != tbin.MAP {
		addW(tutil.PE{K: 'b', B: []byte{1}}, "binkey")
	}
	return
}

func (c *ctx) famInvalid() {
	for _, native := range []bool{false, true} {
		generic.UseNativeSkipForGet = native
		for _, p := range tutil.Positions(c.v, c.s, c.buf) {
			p := p
			abs, absT, wrong, wrongT := invalidSteps(p.V, p.S, c.buf)
			for i := range abs {
				path := append(append([]tutil.PE{}, p.Path...), abs[i])
				trig := absT[i]
				c.guard("Node.GetByPath", trig, func() {
					c.checkAbsent("Node.GetByPath", trig, c.root().GetByPath(tutil.Paths(path)...))
				})
				c.guard("Value.GetByPath", trig, func() {
					c.checkAbsent("Value.GetByPath", trig, c.rootV().GetByPath(tutil.Paths(path)...).Node)
				})
				if abs[i].K == 'f' && abs[i].Name != "" {
					np := append(append([]tutil.PE{}, p.Path...), tutil.PE{K: 'n', Name: abs[i].Name})
					c.guard("Value.GetByPath", trig+",byname", func() {
						c.checkAbsent("Value.GetByPath", trig+",byname", c.rootV().GetByPath(tutil.Paths(np)...).Node)
					})
				}
				// absent-inner: one more step after the absent one
				inner := append(append([]tutil.PE{}, path...), tutil.PE{K: 'i', I: 0})
				c.guard("Node.GetByPath", "inner-"+trig, func() {
					c.checkAbsent("Node.GetByPath", "inner-"+trig, c.root().GetByPath(tutil.Paths(inner)...))
				})
				c.guard("Value.GetByPath", "inner-"+trig, func() {
					c.checkAbsent("Value.GetByPath", "inner-"+trig, c.rootV().GetByPath(tutil.Paths(inner)...).Node)
				})
			}
			for i := range wrong {
				path := append(append([]tutil.PE{}, p.Path...), wrong[i])
				trig := wrongT[i]
				c.guard("Node.GetByPath", trig, func() {
					c.checkAbsent("Node.GetByPath", trig, c.root().GetByPath(tutil.Paths(path)...))
				})
				c.guard("Value.GetByPath", trig, func() {
					c.checkAbsent("Value.GetByPath", trig, c.rootV().GetByPath(tutil.Paths(path)...).Node)
				})
			}
			// unknown field name on a struct
			if p.V.T == tbin.STRUCT {
				np := append(append([]tutil.PE{}, p.Path...), tutil.PE{K: 'n', Name: "no_such_field"})
				c.guard("Value.GetByPath", "absent:undeclared-name-in-struct", func() {
					c.checkAbsent("Value.GetByPath", "absent:undeclared-name-in-struct", c.rootV().GetByPath(tutil.Paths(np)...).Node)
				})
			} else {
				np := append(append([]tutil.PE{}, p.Path...), tutil.PE{K: 'n', Name: "f1"})
				trig := "wrongkind:name-on-" + kindOf(p.V)
				c.guard("Value.GetByPath", trig, func() {
					c.checkAbsent("Value.GetByPath", trig, c.rootV().GetByPath(tutil.Paths(np)...).Node)
				})
			}
		}
	}
}

// nodeAt / valueAt reach a position with GetByPath (already checked by famGetByPath).
func (c *ctx) nodeAt(p tutil.Pos) generic.Node   { return c.root().GetByPath(tutil.Paths(p.Path)...) }
func (c *ctx) valueAt(p tutil.Pos) generic.Value { return c.rootV().GetByPath(tutil.Paths(p.Path)...) }

func stepNode(n generic.Node, e tutil.PE) generic.Node {
	switch e.K {
	case 'f':
		return n.Field(thrift.FieldID(e.ID))
	case 'i':
		return n.Index(e.I)
	case 's':
		return n.GetByStr(e.S)
	case 'k':
		return n.GetByInt(e.I)
	case 'b':
		return n.GetByRaw(e.B)
	}
	panic("bad step")
}

func stepValue(v generic.Value, e tutil.PE) generic.Value {
	switch e.K {
	case 'f':
		return v.Field(thrift.FieldID(e.ID))
	case 'n':
		return v.FieldByName(e.Name)
	case 'i':
		return v.Index(e.I)
	case 's':
		return v.GetByStr(e.S)
	case 'k':
		return v.GetByInt(e.I)
	case 'b':
		return generic.Value{Node: v.GetByRaw(e.B)}
	}
	panic("bad step")
}

func stepName(e tutil.PE) string {
	switch e.K {
	case 'f':
		return "Field"
	case 'n':
		return "FieldByName"
	case 'i':
		return "Index"
	case 's':
		return "GetByStr"
	case 'k':
		return "GetByInt"
	case 'b':
		return "GetByRaw"
	}
	return "?"
}

func (c *ctx) famStep() {
	for _, native := range []bool{false, true} {
		generic.UseNativeSkipForGet = native
		for _, p := range tutil.Positions(c.v, c.s, c.buf) {
			p := p
			var pn generic.Node
			var pv generic.Value
			if pi := core.Catch(func() { pn = c.nodeAt(p); pv = c.valueAt(p) }); pi != nil || pn.IsError() || pv.IsError() {
				continue // reported by the getbypath family
			}
			for _, ch := range tutil.Children(p.V, p.S, c.buf) {
				ch := ch
				trig := "present:" + kindOf(p.V)
				elems := []tutil.PE{ch.PE}
				if ch.Bin.K != 0 && ch.PE.K != 'b' {
					elems = append(elems, ch.Bin)
				}
				for _, e := range elems {
					e := e
					api := "Node." + stepName(e)
					c.guard(api, trig, func() { c.checkNode(api, trig, stepNode(pn, e), ch.V) })
					if e.K != 'b' {
						apiv := "Value." + stepName(e)
						c.guard(apiv, trig, func() {
							v := stepValue(pv, e)
							c.checkNode(apiv, trig, v.Node, ch.V)
							c.checkDesc(apiv, trig, v, tutil.Pos{V: ch.V, S: ch.S})
						})
					}
				}
				if ch.PE.K == 'f' && ch.PE.Name != "" {
					e := tutil.PE{K: 'n', Name: ch.PE.Name}
					c.guard("Value.FieldByName", trig, func() {
						v := stepValue(pv, e)
						c.checkNode("Value.FieldByName", trig, v.Node, ch.V)
						c.checkDesc("Value.FieldByName", trig, v, tutil.Pos{V: ch.V, S: ch.S})
					})
				}
			}
			abs, absT, wrong, wrongT := invalidSteps(p.V, p.S, c.buf)
			all := append(append([]tutil.PE{}, abs...), wrong...)
			allT := append(append([]string{}, absT...), wrongT...)
			for i := range all {
				e, trig := all[i], allT[i]
				api := "Node." + stepName(e)
				c.guard(api, trig, func() { c.checkAbsent(api, trig, stepNode(pn, e)) })
				if e.K != 'b' {
					apiv := "Value." + stepName(e)
					c.guard(apiv, trig, func() { c.checkAbsent(apiv, trig, stepValue(pv, e).Node) })
				}
				if e.K == 'f' && e.Name != "" {
					c.guard("Value.FieldByName", trig, func() {
						c.checkAbsent("Value.FieldByName", trig, stepValue(pv, tutil.PE{K: 'n', Name: e.Name}).Node)
					})
				}
			}
			if p.V.T == tbin.STRUCT {
				c.guard("Value.FieldByName", "absent:undeclared-name-in-struct", func() {
					c.checkAbsent("Value.FieldByName", "absent:undeclared-name-in-struct", pv.FieldByName("no_such_field").Node)
				})
			} else {
				trig := "wrongkind:name-on-" + kindOf(p.V)
				c.guard("Value.FieldByName", trig, func() { c.checkAbsent("Value.FieldByName", trig, pv.FieldByName("f1").Node) })
			}
		}
	}
}

// selections: every ordered selection of <=3 items out of the candidate indexes.
func selections(n int) [][]int {
	var out [][]int
	var rec func(cur []int)
	rec = func(cur []int) {
		if len(cur) > 0 {
			out = append(out, append([]int{}, cur...))
		}
		if len(cur) == 3 {
			return
		}
	next:
		for i := 0; i < n; i++ {
			for _, x := range cur {
				if x == i {
					continue next
				}
			}
			rec(append(cur, i))
		}
	}
	rec(nil)
	return out
}

func (c *ctx) famMany() {
	for _, p := range tutil.Positions(c.v, c.s, c.buf) {
		if p.V.T != tbin.STRUCT && p.V.T != tbin.LIST && p.V.T != tbin.SET && p.V.T != tbin.MAP {
			continue
		}
		p := p
		var pn generic.Node
		if pi := core.Catch(func() { pn = c.nodeAt(p) }); pi != nil || pn.IsError() {
			continue
		}
		ch := tutil.Children(p.V, p.S, c.buf)
		if len(ch) > 8 {
			c.manyAll(p, pn, ch)
		}
		if len(ch) > 3 {
			ch = ch[:3]
		}
		// candidates: the first <=3 children + one absent element of the natural kind
		type cand struct {
			e    tutil.PE
			want *tbin.Val
		}
		var cands []cand
		for _, x := range ch {
			cands = append(cands, cand{x.PE, x.V})
		}
		abs, _, _, _ := invalidSteps(p.V, p.S, c.buf)
		if len(abs) > 0 {
			cands = append(cands, cand{abs[0], nil})
		}
		k := kindOf(p.V)
		for _, sel := range selections(len(cands)) {
			for _, clear := range []bool{false, true} {
				for _, native := range []bool{false, true} {
					sel, clear, native := sel, clear, native
					opts := &generic.Options{ClearDirtyValues: clear, UseNativeSkip: native}
					for _, api := range []string{"GetMany", "typed"} {
						api := api
						name := "Node.GetMany"
						if api == "typed" {
							switch p.V.T {
							case tbin.STRUCT:
								name = "Node.Fields"
							case tbin.MAP:
								name = "Node.Gets"
							default:
								name = "Node.Indexes"
							}
						}
						trig := fmt.Sprintf("%s,paths=%d", k, len(sel))
						c.guard(name, trig, func() {
							pns := make([]generic.PathNode, len(sel))
							for i, ci := range sel {
								pns[i].Path = cands[ci].e.Path()
								if clear {
									pns[i].Node = c.root() // dirty value that must be cleared
								}
							}
							var err error
							if api == "GetMany" {
								err = pn.GetMany(pns, opts)
							} else {
								switch p.V.T {
								case tbin.STRUCT:
									err = pn.Fields(pns, opts)
								case tbin.MAP:
									err = pn.Gets(pns, opts)
								default:
									err = pn.Indexes(pns, opts)
								}
							}
							if err != nil {
								c.viol(name, trig, "error", "paths %v: %v", sel, err)
								return
							}
							for i, ci := range sel {
								if cands[ci].want != nil {
									if pns[i].Node.IsEmpty() {
										c.viol(name, trig, "present-not-returned", "selection %v item %d (%s): empty node, want %s", sel, i, cands[ci].e, cands[ci].want)
									} else {
										c.checkNode(name, trig, pns[i].Node, cands[ci].want)
									}
								} else if !pns[i].Node.IsEmpty() && !pns[i].Node.IsError() {
									c.viol(name, trig, "absent-returned", "selection %v item %d (%s) is absent but a node was returned", sel, i, cands[ci].e)
								}
							}
						})
					}
				}
			}
		}
		// bulk lookups whose paths do not fit the kind of the value at all: an error (or error nodes), never a node, never a panic
		{
			var wrong [][]generic.Path
			switch p.V.T {
			case tbin.STRUCT:
				wrong = [][]generic.Path{{generic.NewPathIndex(0)}, {generic.NewPathStrKey("a")}, {generic.NewPathIntKey(1)}, {generic.NewPathIndex(0), generic.NewPathIndex(1)}}
			case tbin.MAP:
				wrong = [][]generic.Path{{generic.NewPathIndex(0)}, {generic.NewPathFieldId(1)}, {generic.NewPathFieldId(2)}, {generic.NewPathFieldId(4)}, {generic.NewPathFieldId(8)}, {generic.NewPathFieldId(1), generic.NewPathFieldId(4)}}
			default:
				wrong = [][]generic.Path{{generic.NewPathFieldId(1)}, {generic.NewPathStrKey("a")}, {generic.NewPathIntKey(0)}, {generic.NewPathFieldId(1), generic.NewPathFieldId(2)}}
			}
			for _, w := range wrong {
				for _, api := range []string{"GetMany", "GetTree"} {
					w, api := w, api
					trig := fmt.Sprintf("%s,paths-of-the-wrong-kind", k)
					c.guard("Node."+api, trig, func() {
						pns := make([]generic.PathNode, len(w))
						for i := range w {
							pns[i].Path = w[i]
						}
						var err error
						if api == "GetMany" {
							err = pn.GetMany(pns, &generic.Options{})
						} else {
							tree := generic.PathNode{Node: pn, Next: pns}
							err = pn.GetTree(&tree, &generic.Options{})
							pns = tree.Next
						}
						if err != nil {
							return
						}
						for i := range pns {
							if !pns[i].Node.IsEmpty() && !pns[i].Node.IsError() {
								c.viol("Node."+api, trig, "non-error", "path %v does not fit a %s, yet a node of type %v was returned without error", w[i], k, pns[i].Node.Type())
							}
						}
						if len(pns) > 0 && pns[0].Node.IsEmpty() {
							c.viol("Node."+api, trig, "non-error", "paths %v do not fit a %s: nil error and empty nodes (indistinguishable from an absent element)", w, k)
						}
					})
				}
			}
		}
		// structs: one request that MIXES kinds: valid field-id paths around paths of other kinds whose length / number
		// equals the id of a present field (a name as long as the id, Index(id), a string key as long as the id)
		if p.V.T == tbin.STRUCT && len(ch) >= 1 {
			first, last := ch[0], ch[len(ch)-1]
			var strays []generic.Path
			for _, x := range ch {
				if id := int(x.PE.ID); x.PE.K == 'f' && id > 0 && id <= 40 {
					strays = append(strays, generic.NewPathFieldName(strings.Repeat("n", id)), generic.NewPathIndex(id), generic.NewPathStrKey(strings.Repeat("k", id)), generic.NewPathIntKey(id))
				}
			}
			for si, stray := range strays {
				for _, api := range []string{"GetMany", "GetTree", "Fields"} {
					stray, api := stray, api
					trig := fmt.Sprintf("%s,field-ids-mixed-with-a-path-of-another-kind", k)
					_ = si
					c.guard("Node."+api, trig, func() {
						pns := []generic.PathNode{{Path: first.PE.Path()}, {Path: stray}, {Path: last.PE.Path()}}
						valid := []int{0, 2}
						if len(ch) == 1 {
							pns, valid = pns[:2], []int{0} // (the same path twice in one request is not a meaningful request)
						}
						var err error
						switch api {
						case "GetMany":
							err = pn.GetMany(pns, &generic.Options{})
						case "Fields":
							err = pn.Fields(pns, &generic.Options{})
						default:
							tree := generic.PathNode{Node: pn, Next: pns}
							err = pn.GetTree(&tree, &generic.Options{})
							pns = tree.Next
						}
						if err != nil {
							return // refusing the whole request is fine
						}
						if !pns[1].Node.IsEmpty() && !pns[1].Node.IsError() {
							c.viol("Node."+api, trig, "non-error", "path %v does not address a field, yet a node of type %v was returned for it", stray, pns[1].Node.Type())
						}
						for _, i := range valid {
							want := first.V
							if i == 2 {
								want = last.V
							}
							if pns[i].Node.IsEmpty() {
								c.viol("Node."+api, trig, "present-not-returned", "item %d (%v): empty node, want %s", i, pns[i].Path, want)
							} else {
								c.checkNode("Node."+api, trig, pns[i].Node, want)
							}
						}
					})
				}
			}
		}
		// maps: one request that spells its keys in two ways (natural str / int key and raw bin key)
		if p.V.T == tbin.MAP && len(ch) >= 2 {
			for i := range ch {
				for j := range ch {
					if i == j || ch[i].Bin.K == 0 || ch[j].PE.K == 'b' {
						continue
					}
					for _, binFirst := range []bool{false, true} {
						for _, api := range []string{"GetMany", "Gets"} {
							i, j, binFirst, api := i, j, binFirst, api
							trig := fmt.Sprintf("%s,paths=2,mixed-key-spellings", k)
							c.guard("Node."+api, trig, func() {
								pns := []generic.PathNode{{Path: ch[j].PE.Path()}, {Path: ch[i].Bin.Path()}}
								want := []*tbin.Val{ch[j].V, ch[i].V}
								if binFirst {
									pns[0], pns[1] = pns[1], pns[0]
									want[0], want[1] = want[1], want[0]
								}
								var err error
								if api == "GetMany" {
									err = pn.GetMany(pns, &generic.Options{})
								} else {
									err = pn.Gets(pns, &generic.Options{})
								}
								if err != nil {
									c.viol("Node."+api, trig, "error", "%v", err)
									return
								}
								for x := range pns {
									if pns[x].Node.IsEmpty() {
										c.viol("Node."+api, trig, "present-not-returned", "item %d (%v) of a mixed request: empty node, want %s", x, pns[x].Path, want[x])
									} else {
										c.checkNode("Node."+api, trig, pns[x].Node, want[x])
									}
								}
							})
						}
					}
				}
			}
		}
		// GetTree: chain from the root to this position, then two siblings below
		if len(ch) > 0 {
			for _, native := range []bool{false, true} {
				native := native
				c.guard("Node.GetTree", k, func() {
					tree := generic.PathNode{}
					cur := &tree
					for _, e := range p.Path {
						cur.Next = []generic.PathNode{{Path: e.Path()}}
						cur = &cur.Next[0]
					}
					for _, x := range ch {
						cur.Next = append(cur.Next, generic.PathNode{Path: x.PE.Path()})
					}
					if err := c.root().GetTree(&tree, &generic.Options{UseNativeSkip: native}); err != nil {
						c.viol("Node.GetTree", k, "error", "%v", err)
						return
					}
					for i, x := range ch {
						c.checkNode("Node.GetTree", k, cur.Next[i].Node, x.V)
					}
				})
			}
		}
	}
}

// manyAll: one bulk lookup of ALL children of a wide container, in ascending, descending and interleaved
// request order, through GetMany, the typed twin and GetTree.
func (c *ctx) manyAll(p tutil.Pos, pn generic.Node, ch []tutil.Child) {
	k := kindOf(p.V) + ",wide"
	n := len(ch)
	orders := map[string][]int{"ascending": nil, "descending": nil, "interleaved": nil}
	for i := 0; i < n; i++ {
		orders["ascending"] = append(orders["ascending"], i)
		orders["descending"] = append(orders["descending"], n-1-i)
		orders["interleaved"] = append(orders["interleaved"], (i*37)%n)
	}
	if n%37 == 0 {
		delete(orders, "interleaved")
	}
	for _, on := range []string{"ascending", "descending", "interleaved"} {
		sel := orders[on]
		if sel == nil {
			continue
		}
		for _, api := range []string{"GetMany", "typed", "GetTree"} {
			api, sel := api, sel
			name := "Node." + api
			if api == "typed" {
				name = map[tbin.Type]string{tbin.STRUCT: "Node.Fields", tbin.MAP: "Node.Gets", tbin.LIST: "Node.Indexes", tbin.SET: "Node.Indexes"}[p.V.T]
			}
			trig := fmt.Sprintf("%s,paths=all,%s", k, on)
			c.guard(name, trig, func() {
				pns := make([]generic.PathNode, len(sel))
				for i, ci := range sel {
					pns[i].Path = ch[ci].PE.Path()
				}
				opts := &generic.Options{}
				var err error
				switch api {
				case "GetMany":
					err = pn.GetMany(pns, opts)
				case "GetTree":
					tree := generic.PathNode{Next: pns}
					err = pn.GetTree(&tree, opts)
					pns = tree.Next
				default:
					switch p.V.T {
					case tbin.STRUCT:
						err = pn.Fields(pns, opts)
					case tbin.MAP:
						err = pn.Gets(pns, opts)
					default:
						err = pn.Indexes(pns, opts)
					}
				}
				if err != nil {
					c.viol(name, trig, "error", "%v", err)
					return
				}
				for i, ci := range sel {
					if pns[i].Node.IsEmpty() {
						c.viol(name, trig, "present-not-returned", "request position %d (%s) of %d: empty node, want %s", i, ch[ci].PE, len(sel), ch[ci].V)
						return
					}
					c.checkNode(name, trig, pns[i].Node, ch[ci].V)
				}
			})
		}
	}
}

func samePath(a generic.Path, e tutil.PE) bool {
	switch e.K {
	case 'f':
		return a.Type() == generic.PathFieldId && a.Id() == thrift.FieldID(e.ID)
	case 'n':
		return a.Type() == generic.PathFieldName && a.Str() == e.Name
	case 'i':
		return a.Type() == generic.PathIndex && a.Int() == e.I
	case 's':
		return a.Type() == generic.PathStrKey && a.Str() == e.S
	case 'k':
		return a.Type() == generic.PathIntKey && a.Int() == e.I
	case 'b':
		return a.Type() == generic.PathBinKey && bytes.Equal(a.Bin(), e.B)
	}
	return false
}

// noscan: under recurse+NotScanParentNode the option documents that only leaf nodes are assigned
// (container nodes carry no length), so container nodes are not compared there.
func (c *ctx) checkChildren(api, trig string, got []generic.PathNode, v *tbin.Val, s *tbin.Shape, recurse, noscan bool) {
	want := tutil.Children(v, s, c.buf)
	if len(got) != len(want) {
		c.viol(api, trig, "wrong-count", "%d children want %d of %s", len(got), len(want), v)
		return
	}
	for i := range want {
		if !samePath(got[i].Path, want[i].PE) {
			c.viol(api, trig, "wrong-path", "child %d path %v want %s", i, got[i].Path, want[i].PE)
			continue
		}
		isC := want[i].V.T == tbin.STRUCT || want[i].V.T == tbin.LIST || want[i].V.T == tbin.SET || want[i].V.T == tbin.MAP
		if !(recurse && noscan && isC) {
			c.checkNode(api, trig, got[i].Node, want[i].V)
		} else if tbin.Type(got[i].Node.Type()) != want[i].V.T {
			c.viol(api, trig, "wrong-type", "child %d type %v want %s", i, got[i].Node.Type(), want[i].V.T)
		}
		if recurse && isC {
			c.checkChildren(api, trig, got[i].Next, want[i].V, want[i].S, recurse, noscan)
		}
		if recurse && !isC && len(got[i].Next) != 0 {
			c.viol(api, trig, "scalar-has-grandchildren", "scalar child %d (%s) is listed with %d (stale) children of its own", i, want[i].V, len(got[i].Next))
		}
		if !recurse && len(got[i].Next) != 0 {
			c.viol(api, trig, "lazy-has-grandchildren", "child %d has %d (stale) grandchildren in lazy mode", i, len(got[i].Next))
		}
	}
}

func (c *ctx) famChildren() {
	for _, p := range tutil.Positions(c.v, c.s, c.buf) {
		if p.V.T != tbin.STRUCT && p.V.T != tbin.LIST && p.V.T != tbin.SET && p.V.T != tbin.MAP {
			continue
		}
		p := p
		var pn generic.Node
		if pi := core.Catch(func() { pn = c.nodeAt(p) }); pi != nil || pn.IsError() {
			continue
		}
		for _, recurse := range []bool{false, true} {
			for _, native := range []bool{false, true} {
				for _, noscan := range []bool{false, true} {
					for _, dirty := range []int{0, 1, 5} {
						recurse, native, noscan, dirty := recurse, native, noscan, dirty
						trig := fmt.Sprintf("%s,recurse=%v", kindOf(p.V), recurse)
						c.guard("Node.Children", trig, func() {
							out := make([]generic.PathNode, dirty, dirty+1)
							for i := range out {
								out[i] = generic.PathNode{Path: generic.NewPathIndex(77), Node: c.root(), Next: []generic.PathNode{{Path: generic.NewPathIndex(5), Node: c.root()}}}
							}
							err := pn.Children(&out, recurse, &generic.Options{UseNativeSkip: native, NotScanParentNode: noscan})
							if err != nil {
								c.viol("Node.Children", trig, "error", "%v", err)
								return
							}
							c.checkChildren("Node.Children", trig, out, p.V, p.S, recurse, noscan)
						})
					}
				}
			}
		}
	}
}

// famChildrenIndexed: Children with StoreChildrenById / StoreChildrenByHash lays the children out by id / hash
// slot: the listing is compared as a SET (every child of the value exactly once, nothing else; empty slots skipped).
func (c *ctx) famChildrenIndexed() {
	for _, p := range tutil.Positions(c.v, c.s, c.buf) {
		if p.V.T != tbin.STRUCT && p.V.T != tbin.MAP {
			continue
		}
		p := p
		var pn generic.Node
		if pi := core.Catch(func() { pn = c.nodeAt(p) }); pi != nil || pn.IsError() {
			continue
		}
		want := tutil.Children(p.V, p.S, c.buf)
		for _, recurse := range []bool{false, true} {
			recurse := recurse
			trig := fmt.Sprintf("%s,recurse=%v,by-id+by-hash", kindOf(p.V), recurse)
			c.guard("Node.Children", trig, func() {
				var out []generic.PathNode
				if err := pn.Children(&out, recurse, &generic.Options{StoreChildrenById: true, StoreChildrenByHash: true}); err != nil {
					c.viol("Node.Children", trig, "error", "%v", err)
					return
				}
				var got []generic.PathNode
				for _, x := range out {
					if x.Path.Type() != 0 {
						got = append(got, x)
					}
				}
				if len(got) != len(want) {
					c.viol("Node.Children", trig, "wrong-count", "%d children listed, the value has %d", len(got), len(want))
				}
				for _, w := range want {
					n := 0
					for _, g := range got {
						if samePath(g.Path, w.PE) {
							n++
							if n == 1 {
								c.checkNode("Node.Children", trig, g.Node, w.V)
							}
						}
					}
					if n != 1 {
						c.viol("Node.Children", trig, "child-listed-not-once", "child %s of the value is listed %d times", w.PE, n)
					}
				}
			})
		}
	}
}

func (c *ctx) famForeach() {
	for _, p := range tutil.Positions(c.v, c.s, c.buf) {
		if p.V.T != tbin.STRUCT && p.V.T != tbin.LIST && p.V.T != tbin.SET && p.V.T != tbin.MAP {
			continue
		}
		p := p
		var pn generic.Node
		var pv generic.Value
		if pi := core.Catch(func() { pn = c.nodeAt(p); pv = c.valueAt(p) }); pi != nil || pn.IsError() || pv.IsError() {
			continue
		}
		want := tutil.Children(p.V, p.S, c.buf)
		k := kindOf(p.V)
		for _, native := range []bool{false, true} {
			for _, stopAt := range []int{-1, 0, 1} {
				native, stopAt := native, stopAt
				exp := len(want)
				if stopAt >= 0 && stopAt+1 < exp {
					exp = stopAt + 1
				}
				trig := fmt.Sprintf("%s,stop=%d", k, stopAt)
				c.guard("Node.Foreach", trig, func() {
					i := 0
					err := pn.Foreach(func(path generic.Path, n generic.Node) bool {
						if i < len(want) {
							if !samePath(path, want[i].PE) {
								c.viol("Node.Foreach", trig, "wrong-path", "item %d path %v want %s", i, path, want[i].PE)
							}
							c.checkNode("Node.Foreach", trig, n, want[i].V)
						}
						i++
						return i-1 != stopAt
					}, &generic.Options{UseNativeSkip: native})
					if err != nil {
						c.viol("Node.Foreach", trig, "error", "%v", err)
					}
					if i != exp {
						c.viol("Node.Foreach", trig, "wrong-count", "%d callbacks want %d", i, exp)
					}
				})
				for _, byName := range []bool{false, true} {
					byName := byName
					trigv := fmt.Sprintf("%s,byname=%v", trig, byName)
					c.guard("Value.Foreach", trigv, func() {
						i := 0
						err := pv.Foreach(func(path generic.Path, v generic.Value) bool {
							if i < len(want) {
								e := want[i].PE
								if byName && e.K == 'f' {
									e = tutil.PE{K: 'n', Name: e.Name}
								}
								if !samePath(path, e) {
									c.viol("Value.Foreach", trigv, "wrong-path", "item %d path %v want %s", i, path, e)
								}
								c.checkNode("Value.Foreach", trigv, v.Node, want[i].V)
								c.checkDesc("Value.Foreach", trigv, v, tutil.Pos{V: want[i].V, S: want[i].S})
							}
							i++
							return i-1 != stopAt
						}, &generic.Options{UseNativeSkip: native, IterateStructByName: byName, DisallowUnknow: true})
						if err != nil {
							c.viol("Value.Foreach", trigv, "error", "%v", err)
						}
						if i != exp {
							c.viol("Value.Foreach", trigv, "wrong-count", "%d callbacks want %d", i, exp)
						}
					})
				}
				// a descriptor that lacks one of the fields on the wire (DisallowUnknow off): the unknown field is passed
				// over, every other field is still visited, in wire order
				if p.V.T == tbin.STRUCT && p.S != nil && len(p.S.Fields) >= 2 && stopAt == -1 {
					for _, drop := range []int{0, len(p.S.Fields) / 2} {
						dropID := p.S.Fields[drop].ID
						minus := tbin.StructS()
						for k, f := range p.S.Fields {
							if k != drop {
								minus.Fields = append(minus.Fields, f)
							}
						}
						var wantM []tutil.Child
						for _, w := range want {
							if !(w.PE.K == 'f' && w.PE.ID == dropID) {
								wantM = append(wantM, w)
							}
						}
						if len(wantM) == len(want) {
							continue // the dropped field is not on the wire
						}
						for _, byName := range []bool{false, true} {
							byName := byName
							trigu := fmt.Sprintf("%s,descriptor-lacks-%s-field,byname=%v", k, map[bool]string{true: "first", false: "middle"}[drop == 0], byName)
							c.guard("Value.Foreach", trigu, func() {
								pv2 := generic.NewValue(tutil.Desc(minus), pn.Raw())
								i := 0
								err := pv2.Foreach(func(path generic.Path, v generic.Value) bool {
									if i < len(wantM) {
										e := wantM[i].PE
										if byName && e.K == 'f' {
											e = tutil.PE{K: 'n', Name: e.Name}
										}
										if !samePath(path, e) {
											c.viol("Value.Foreach", trigu, "wrong-path", "item %d path %v want %s", i, path, e)
										}
										c.checkNode("Value.Foreach", trigu, v.Node, wantM[i].V)
									}
									i++
									return true
								}, &generic.Options{UseNativeSkip: native, IterateStructByName: byName})
								if err != nil {
									c.viol("Value.Foreach", trigu, "error", "%v", err)
								}
								if i != len(wantM) {
									c.viol("Value.Foreach", trigu, "wrong-count", "%d callbacks want %d (the descriptor lacks field %d, the value has it)", i, len(wantM), dropID)
								}
							})
						}
					}
				}
				if p.V.T == tbin.MAP {
					c.guard("Node.ForeachKV", trig, func() {
						i := 0
						err := pn.ForeachKV(func(key, val generic.Node) bool {
							if i < len(want) {
								c.checkNode("Node.ForeachKV", trig+",key", key, want[i].Key)
								c.checkNode("Node.ForeachKV", trig, val, want[i].V)
							}
							i++
							return i-1 != stopAt
						}, &generic.Options{UseNativeSkip: native})
						if err != nil {
							c.viol("Node.ForeachKV", trig, "error", "%v", err)
						}
						if i != exp {
							c.viol("Node.ForeachKV", trig, "wrong-count", "%d callbacks want %d", i, exp)
						}
					})
					c.guard("Value.ForeachKV", trig, func() {
						i := 0
						err := pv.ForeachKV(func(key, val generic.Value) bool {
							if i < len(want) {
								c.checkNode("Value.ForeachKV", trig+",key", key.Node, want[i].Key)
								c.checkNode("Value.ForeachKV", trig, val.Node, want[i].V)
							}
							i++
							return i-1 != stopAt
						}, &generic.Options{UseNativeSkip: native})
						if err != nil {
							c.viol("Value.ForeachKV", trig, "error", "%v", err)
						}
						if i != exp {
							c.viol("Value.ForeachKV", trig, "wrong-count", "%d callbacks want %d", i, exp)
						}
					})
				} else {
					c.guard("Node.ForeachKV", "wrongkind:"+k, func() {
						if err := pn.ForeachKV(func(key, val generic.Node) bool { return true }, &generic.Options{}); err == nil {
							c.viol("Node.ForeachKV", "wrongkind:"+k, "non-error", "ForeachKV on non-map returned nil error")
						}
					})
				}
			}
		}
	}
}

func (c *ctx) famIface() {
	for _, p := range tutil.Positions(c.v, c.s, c.buf) {
		p := p
		var pn generic.Node
		if pi := core.Catch(func() { pn = c.nodeAt(p) }); pi != nil || pn.IsError() {
			continue
		}
		k := kindOf(p.V)
		for _, byID := range []bool{false, true} {
			for _, strBin := range []bool{false, true} {
				for _, native := range []bool{false, true} {
					byID, strBin, native := byID, strBin, native
					opts := &generic.Options{MapStructById: byID, CastStringAsBinary: strBin, UseNativeSkip: native}
					trig := fmt.Sprintf("%s,strbin=%v", k, strBin)
					c.guard("Node.Interface", trig, func() {
						got, err := pn.Interface(opts)
						if err != nil {
							c.viol("Node.Interface", trig, "error", "%v", err)
							return
						}
						if want := tutil.GoIface(p.V, byID, strBin); !tutil.AnyEqual(got, want) {
							c.viol("Node.Interface", trig, "value-differs", "got %#v want %#v", got, want)
						}
					})
					switch p.V.T {
					case tbin.LIST, tbin.SET:
						c.guard("Node.List", trig, func() {
							got, err := pn.List(opts)
							if err != nil || !tutil.AnyEqual(got, tutil.GoIface(p.V, byID, strBin)) {
								c.viol("Node.List", trig, "value-differs", "got %#v err %v", got, err)
							}
						})
					case tbin.MAP:
						if p.V.KT == tbin.STRING {
							c.guard("Node.StrMap", trig, func() {
								got, err := pn.StrMap(opts)
								if err != nil || !tutil.AnyEqual(got, tutil.GoIface(p.V, byID, strBin)) {
									c.viol("Node.StrMap", trig, "value-differs", "got %#v err %v", got, err)
								}
							})
						} else {
							c.guard("Node.StrMap", "wrongkind:"+k, func() {
								if _, err := pn.StrMap(opts); err == nil {
									c.viol("Node.StrMap", "wrongkind:"+k, "non-error", "StrMap on non-string-key map succeeded")
								}
							})
						}
						if k == "map-intkey" {
							c.guard("Node.IntMap", trig, func() {
								got, err := pn.IntMap(opts)
								if err != nil || !tutil.AnyEqual(got, tutil.GoIface(p.V, byID, strBin)) {
									c.viol("Node.IntMap", trig, "value-differs", "got %#v err %v", got, err)
								}
							})
						} else {
							c.guard("Node.IntMap", "wrongkind:"+k, func() {
								if _, err := pn.IntMap(opts); err == nil {
									c.viol("Node.IntMap", "wrongkind:"+k, "non-error", "IntMap on non-int-key map succeeded")
								}
							})
						}
						if !(strBin && p.V.KT == tbin.STRING) { // []byte keys are not hashable in Go: outside the documented form
							c.guard("Node.InterfaceMap", trig, func() {
								got, err := pn.InterfaceMap(opts)
								if err != nil || !tutil.AnyEqual(got, tutil.GoIfaceMap(p.V, byID, strBin)) {
									c.viol("Node.InterfaceMap", trig, "value-differs", "got %#v err %v", got, err)
								}
							})
						}
					}
				}
			}
		}
		// Len
		c.guard("Node.Len", k, func() {
			n, err := pn.Len()
			switch p.V.T {
			case tbin.LIST, tbin.SET, tbin.MAP:
				if err != nil || n != len(p.V.L) {
					c.viol("Node.Len", k, "value-differs", "got %d err %v want %d", n, err, len(p.V.L))
				}
			default:
				if err == nil {
					c.viol("Node.Len", "wrongkind:"+k, "non-error", "Len on %s succeeded with %d", k, n)
				}
			}
		})
		// typed casts: the matching cast returns the value, every other cast an error
		type cast struct {
			name string
			ok   bool
			run  func() (interface{}, error)
			want interface{}
		}
		casts := []cast{
			{"Bool", p.V.T == tbin.BOOL, func() (interface{}, error) { return pn.Bool() }, p.V.B},
			{"Byte", p.V.T == tbin.BYTE, func() (interface{}, error) { return pn.Byte() }, byte(p.V.I)},
			{"Int", p.V.T == tbin.BYTE || p.V.T == tbin.I16 || p.V.T == tbin.I32 || p.V.T == tbin.I64, func() (interface{}, error) { return pn.Int() }, tutil.GoIface(&tbin.Val{T: intT(p.V.T), I: p.V.I}, false, false)},
			{"Float64", p.V.T == tbin.DOUBLE, func() (interface{}, error) { return pn.Float64() }, p.V.F},
			{"String", p.V.T == tbin.STRING, func() (interface{}, error) { return pn.String() }, string(p.V.S)},
			{"Binary", p.V.T == tbin.STRING, func() (interface{}, error) { return pn.Binary() }, append([]byte{}, p.V.S...)},
		}
		for _, ct := range casts {
			ct := ct
			api := "Node." + ct.name
			if ct.ok {
				c.guard(api, k, func() {
					got, err := ct.run()
					if err != nil || !tutil.AnyEqual(got, ct.want) {
						c.viol(api, k, "value-differs", "got %#v err %v want %#v", got, err, ct.want)
					}
				})
			} else {
				c.guard(api, "wrongkind:"+k, func() {
					if got, err := ct.run(); err == nil {
						c.viol(api, "wrongkind:"+k, "non-error", "cast succeeded with %#v", got)
					}
				})
			}
		}
	}
}

func intT(t tbin.Type) tbin.Type {
	switch t {
	case tbin.BYTE, tbin.I16, tbin.I32, tbin.I64:
		return t
	}
	return tbin.I64
}

func (check) SelfCheck() error {
	return tutil.CrossCheckGopkg(shapes("thorough"))
}
