// Package c19: Thrift protocol codec — write/read inverse, bytes standard, skip exact, envelope faithful.
package c19

import (
	"bytes"
	"encoding/binary"
	"fmt"
	"math"
	"strings"

	"github.com/cloudwego/dynamicgo/thrift"
	"github.com/cloudwego/dynamicgo/vsync"

	"verif/checks/tutil"
	"verif/engine/core"
	"verif/ref/poolpoison"
	"verif/ref/tbin"
)

type check struct{}

func init() { core.Register(check{}) }

func (check) ID() string    { return "C19" }
func (check) Level() string { return "exploration" }
func (check) Rule() string {
	return "bounded-exhaustive enumeration, simplest first: all bool/byte/i16 values; i32/i64/double boundary families (every +-2^k+d |d|<=2, digit boundaries; every (sign,exponent) x 5 mantissa patterns); strings of every length 0..40 and 4095..4097 x 3 contents; every container/field header over all type codes x size alphabet; Go values <-> model for every shape of T(1) u T(2) x container size 0..3 x flag sets (WriteAny/ReadAny/WriteAnyWithDesc/ReadAnyWithDesc); Skip (Go and native) over T(1) u T(2) u T(3-subset) values; envelopes names x types x seq x ids x bodies. A case is non-trivial if it is distinct by (operation, input) and exercised a write+read or skip of at least one byte. Later additions: pooled readers / writers recycled after objects of 0..1 MiB, the BinaryEncoding twins (Encode*/Decode*, EncodeEmpty of every type into fresh, prefixed and dirty buffers). Round 8: sized Go key maps through WriteAnyWithDesc; fixed-offset decoders over slices with following bytes. Thorough tier: all 2^32 i32 values in blocks, +-2^k+d for |d|<=16 and two-byte patterns for i64, 70 mantissa patterns per (sign, exponent), every string length 0..300 and around 8 KiB / 64 KiB / 1 MiB, T(3) shapes for the generic readers / writers, container sizes up to 5. Round 11: maps keyed by lists, sets, maps, structs and doubles."
}

func (check) Assumptions() []string {
	return []string{"reference = ref/tbin (cross-checked against cloudwego/gopkg thrift at self-check)", "Go-map-driven writers emit entries in arbitrary order: map entries / struct fields are compared as unordered, everything else bytewise"}
}

const (
	gBoolByte = iota
	gI16
	gI32
	gI64
	gDouble
	gStrings
	gHeaders
	gEnvelope
	gPooled
	gEncoding
	gFixed
)

type shapeGroup struct {
	name   string
	kind   string // any | desc | skip
	shapes []*tbin.Shape
}

// deep is set from the tier at the start of Groups / Enumerate: the thorough tier widens every family (all 2^32
// i32 values in blocks, +-2^k+d for |d|<=16 and two-byte patterns for i64, 70 mantissa patterns per (sign, exponent),
// every string length 0..300 and around 64 KiB / 1 MiB, T(3) shapes for the generic readers / writers too, container
// sizes up to 5).
var deep bool

func shapeGroups(tier string) []shapeGroup {
	var all []*tbin.Shape
	all = append(all, tbin.Scalars()...)
	all = append(all, tbin.T1()...)
	all = append(all, tbin.T2()...)
	if tier == "thorough" {
		all = append(all, tbin.T3Small()...)
	}
	// maps keyed by containers and structs (Go form: pointer keys)
	b := tbin.Sc(tbin.BOOL)
	all = append(all, tbin.MapS(tbin.ListS(tbin.Sc(tbin.I32)), tbin.Sc(tbin.I32)), tbin.MapS(tbin.SetS(tbin.Sc(tbin.STRING)), tbin.Sc(tbin.BYTE)),
		tbin.MapS(tbin.MapS(tbin.Sc(tbin.STRING), b), b), tbin.MapS(tbin.MapS(tbin.Sc(tbin.I32), b), b), tbin.MapS(tbin.StructS(tbin.SF(1, tbin.Sc(tbin.I32))), tbin.Sc(tbin.I32)),
		tbin.MapS(tbin.Sc(tbin.DOUBLE), tbin.Sc(tbin.STRING)))
	var gs []shapeGroup
	chunk := 40
	for _, kind := range []string{"any", "desc", "skip"} {
		src := all
		if kind == "skip" && tier != "thorough" {
			src = append(append([]*tbin.Shape{}, all...), tbin.T3Small()...)
		}
		for i := 0; i < len(src); i += chunk {
			j := i + chunk
			if j > len(src) {
				j = len(src)
			}
			gs = append(gs, shapeGroup{name: fmt.Sprintf("%s/%d-%d", kind, i, j), kind: kind, shapes: src[i:j]})
		}
	}
	return gs
}

func (check) Groups(tier string, seed int64) []string {
	g := []string{"bool-byte", "i16", "i32", "i64", "double", "strings", "headers", "envelope", "pooled-objects", "binary-encoding"}
	sgs := shapeGroups(tier)
	for _, sg := range sgs {
		g = append(g, sg.name)
	}
	if tier == "thorough" {
		for hi := 0; hi < 256; hi++ {
			g = append(g, fmt.Sprintf("i32-all/%02x", hi))
		}
	}
	return g
}

// enumI32All: every i32 with the given top byte, one case per second byte (65536 values each), through
// WriteI32/ReadI32, WriteInt/ReadInt(I32) and the BinaryEncoding twins against the big-endian reference.
func enumI32All(hi int, yield func(core.Case) bool) {
	for b2 := 0; b2 < 256; b2++ {
		base := uint32(hi)<<24 | uint32(b2)<<16
		if !yield(mk("i32-block", fmt.Sprintf("%08x..%08x", base, base|0xffff), func(r *core.Result) {
			p := &thrift.BinaryProtocol{Buf: make([]byte, 0, 16)}
			q := &thrift.BinaryProtocol{}
			enc := thrift.BinaryEncoding{}
			var ref, eb [4]byte
			bad := 0
			for lo := uint32(0); lo < 65536 && bad < 3; lo++ {
				u := base | lo
				x := int32(u)
				ref[0], ref[1], ref[2], ref[3] = byte(u>>24), byte(u>>16), byte(u>>8), byte(u)
				p.Buf = p.Buf[:0]
				e1 := p.WriteI32(x)
				e2 := p.WriteInt(thrift.I32, int(x))
				if e1 != nil || e2 != nil || len(p.Buf) != 8 || !bytes.Equal(p.Buf[:4], ref[:]) || !bytes.Equal(p.Buf[4:], ref[:]) {
					r.Add("i32-block|bytes-differ", "WriteI32 / WriteInt(I32) of %d: %x err %v %v want %x twice", x, p.Buf, e1, e2, ref)
					bad++
				}
				q.Buf, q.Read = p.Buf, 0
				g1, e1 := q.ReadI32()
				g2, e2 := q.ReadInt(thrift.I32)
				if e1 != nil || e2 != nil || g1 != x || g2 != int(x) || q.Read != 8 {
					r.Add("i32-block|readback-differs", "ReadI32 / ReadInt(I32) of %x: %d %d err %v %v cursor %d", ref, g1, g2, e1, e2, q.Read)
					bad++
				}
				enc.EncodeInt32(eb[:], x)
				if eb != ref || enc.DecodeInt32(ref[:]) != x {
					r.Add("i32-block|encoding-twin-differs", "EncodeInt32(%d) = %x, DecodeInt32(%x) = %d", x, eb, ref, enc.DecodeInt32(ref[:]))
					bad++
				}
			}
			r.Count("values", 65536)
		})) {
			return
		}
	}
}

func i64Family() []int64 {
	seen := map[int64]bool{}
	var out []int64
	add := func(v int64) {
		if !seen[v] {
			seen[v] = true
			out = append(out, v)
		}
	}
	dmax := int64(2)
	if deep {
		dmax = 16
	}
	for k := 0; k < 64; k++ {
		for d := -dmax; d <= dmax; d++ {
			add(int64(1)<<uint(k) + d)
			add(-(int64(1) << uint(k)) + d)
		}
	}
	if deep {
		// every value with at most two non-zero bytes over a byte alphabet
		al := []uint64{0x01, 0x7f, 0x80, 0xff, 0x55, 0xaa}
		for i := 0; i < 8; i++ {
			for _, a := range al {
				add(int64(a << uint(8*i)))
				for j := i + 1; j < 8; j++ {
					for _, b := range al {
						add(int64(a<<uint(8*i) | b<<uint(8*j)))
					}
				}
			}
		}
	}
	p := int64(1)
	for i := 0; i < 19; i++ {
		add(p - 1)
		add(p)
		add(p + 1)
		add(-p)
		add(-p - 1)
		add(-p + 1)
		if i < 18 {
			p *= 10
		}
	}
	add(math.MaxInt64)
	add(math.MinInt64)
	return out
}

func f64Family() []float64 {
	var out []float64
	mants := []uint64{0, 1, (1 << 52) - 1, 1 << 51, 0x5555555555555}
	if deep {
		for b := uint(1); b < 52; b++ {
			mants = append(mants, 1<<b)
		}
		mants = append(mants, 0xaaaaaaaaaaaaa, 0xfffffffffffff-1, 0x8000000000001, 0x00000000000ff, 0xff00000000000, 0x00000ffff0000, 3, 7, 0xf0f0f0f0f0f0f, 0x0f0f0f0f0f0f0)
	}
	for s := uint64(0); s < 2; s++ {
		for e := uint64(0); e < 2048; e++ {
			for _, m := range mants {
				out = append(out, math.Float64frombits(s<<63|e<<52|m))
			}
		}
	}
	return out
}

func strFamily() [][]byte {
	var out [][]byte
	lens := []int{}
	for i := 0; i <= 40; i++ {
		lens = append(lens, i)
	}
	lens = append(lens, 4095, 4096, 4097)
	if deep {
		for i := 41; i <= 300; i++ {
			lens = append(lens, i)
		}
		lens = append(lens, 8191, 8192, 8193, 65535, 65536, 65537, 1<<20-1, 1<<20, 1<<20+1)
	}
	for _, n := range lens {
		a := bytes.Repeat([]byte{'a'}, n)
		b := make([]byte, n)
		for i := range b {
			b[i] = byte(i*7 + 1)
		}
		c := make([]byte, n)
		for i := range c {
			c[i] = 0xff - byte(i%3)
		}
		out = append(out, a, b, c)
	}
	return out
}

func hex(b []byte) string {
	if len(b) > 48 {
		return fmt.Sprintf("%x..(%d)", b[:48], len(b))
	}
	return fmt.Sprintf("%x", b)
}

type desc struct {
	Op string `json:"op"`
	In string `json:"in"`
}

func mk(op, in string, run func(r *core.Result)) core.Case {
	return core.Case{
		Tag:  op,
		Desc: func() interface{} { return desc{op, in} },
		Run: func() core.Result {
			r := core.Result{Class: "ok", Key: op + "|" + in}
			if pi := core.Catch(func() { run(&r) }); pi != nil {
				r.Class = "panic"
				r.Add(op+"|panic@"+pi.Site+"|"+core.PanicClass(pi.Val), "panic: %s\n%s", pi.Val, pi.Stack)
			}
			if len(r.Viol) > 0 && r.Class == "ok" {
				r.Class = "violation"
			}
			return r
		},
	}
}

// scalar write/read through BinaryProtocol; ref bytes from tbin.
func scalarCase(op string, v *tbin.Val, write func(p *thrift.BinaryProtocol) error, read func(p *thrift.BinaryProtocol) (interface{}, error), want interface{}) core.Case {
	return mk(op, v.String(), func(r *core.Result) {
		ref := tbin.Bytes(v)
		p := &thrift.BinaryProtocol{}
		if err := write(p); err != nil {
			r.Add(op+"|write-error", "write %s: %v", v, err)
			return
		}
		if !bytes.Equal(p.Buf, ref) {
			r.Add(op+"|bytes-differ", "write %s: got %x want %x", v, p.Buf, ref)
		}
		q := &thrift.BinaryProtocol{Buf: ref}
		got, err := read(q)
		if err != nil {
			r.Add(op+"|read-error", "read %s: %v", v, err)
			return
		}
		if !tutil.AnyEqual(got, want) {
			r.Add(op+"|readback-differs", "read %s: got %#v want %#v", v, got, want)
		}
		if q.Read != len(ref) {
			r.Add(op+"|cursor", "read %s: cursor %d want %d", v, q.Read, len(ref))
		}
	})
}

func (check) Enumerate(tier string, seed int64, group int, yield func(core.Case) bool) {
	deep = tier == "thorough"
	if nfix := gFixed + len(shapeGroups(tier)); deep && group >= nfix {
		enumI32All(group-nfix, yield)
		return
	}
	switch group {
	case gBoolByte:
		for _, b := range []bool{false, true} {
			b := b
			if !yield(scalarCase("bool", tbin.Bool(b), func(p *thrift.BinaryProtocol) error { return p.WriteBool(b) }, func(p *thrift.BinaryProtocol) (interface{}, error) { return p.ReadBool() }, b)) {
				return
			}
		}
		for i := 0; i < 256; i++ {
			x := byte(i)
			if !yield(scalarCase("byte", tbin.Byte(int8(x)), func(p *thrift.BinaryProtocol) error { return p.WriteByte(x) }, func(p *thrift.BinaryProtocol) (interface{}, error) { return p.ReadByte() }, x)) {
				return
			}
			for _, t := range []thrift.Type{thrift.BYTE, thrift.I16, thrift.I32, thrift.I64} {
				t := t
				xv := int(int8(x))
				if t == thrift.BYTE {
					xv = int(x) // the library's byte is uint8: WriteInt/ReadInt(BYTE) domain is 0..255
				}
				var v *tbin.Val
				switch t {
				case thrift.BYTE:
					v = tbin.Byte(int8(xv))
				case thrift.I16:
					v = tbin.I16v(int16(xv))
				case thrift.I32:
					v = tbin.I32v(int32(xv))
				default:
					v = tbin.I64v(int64(xv))
				}
				if !yield(scalarCase("int:"+tbin.Type(t).String(), v, func(p *thrift.BinaryProtocol) error { return p.WriteInt(t, xv) }, func(p *thrift.BinaryProtocol) (interface{}, error) { return p.ReadInt(t) }, xv)) {
					return
				}
			}
		}
	case gI16:
		for i := -32768; i <= 32767; i++ {
			x := int16(i)
			if !yield(scalarCase("i16", tbin.I16v(x), func(p *thrift.BinaryProtocol) error { return p.WriteI16(x) }, func(p *thrift.BinaryProtocol) (interface{}, error) { return p.ReadI16() }, x)) {
				return
			}
		}
	case gI32:
		seen := map[int32]bool{}
		for _, v := range i64Family() {
			x := int32(v)
			if seen[x] {
				continue
			}
			seen[x] = true
			if !yield(scalarCase("i32", tbin.I32v(x), func(p *thrift.BinaryProtocol) error { return p.WriteI32(x) }, func(p *thrift.BinaryProtocol) (interface{}, error) { return p.ReadI32() }, x)) {
				return
			}
			xi := int(x)
			if !yield(scalarCase("int:i32", tbin.I32v(x), func(p *thrift.BinaryProtocol) error { return p.WriteInt(thrift.I32, xi) }, func(p *thrift.BinaryProtocol) (interface{}, error) { return p.ReadInt(thrift.I32) }, xi)) {
				return
			}
		}
	case gI64:
		for _, x := range i64Family() {
			x := x
			if !yield(scalarCase("i64", tbin.I64v(x), func(p *thrift.BinaryProtocol) error { return p.WriteI64(x) }, func(p *thrift.BinaryProtocol) (interface{}, error) { return p.ReadI64() }, x)) {
				return
			}
			xi := int(x)
			if !yield(scalarCase("int:i64", tbin.I64v(x), func(p *thrift.BinaryProtocol) error { return p.WriteInt(thrift.I64, xi) }, func(p *thrift.BinaryProtocol) (interface{}, error) { return p.ReadInt(thrift.I64) }, xi)) {
				return
			}
		}
	case gDouble:
		for _, x := range f64Family() {
			x := x
			v := tbin.Double(x)
			c := scalarCase("double", v, func(p *thrift.BinaryProtocol) error { return p.WriteDouble(x) }, func(p *thrift.BinaryProtocol) (interface{}, error) { return p.ReadDouble() }, x)
			bits := math.Float64bits(x)
			c.Desc = func() interface{} { return desc{"double", fmt.Sprintf("bits=%016x", bits)} }
			run := c.Run
			c.Run = func() core.Result { r := run(); r.Key = fmt.Sprintf("double|%016x", bits); return r }
			if !yield(c) {
				return
			}
		}
	case gStrings:
		for _, s := range strFamily() {
			s := s
			for _, cp := range []bool{false, true} {
				cp := cp
				op := fmt.Sprintf("string(copy=%v)", cp)
				c := scalarCase(op, tbin.Bin(s), func(p *thrift.BinaryProtocol) error { return p.WriteString(string(s)) }, func(p *thrift.BinaryProtocol) (interface{}, error) { return p.ReadString(cp) }, string(s))
				key := fmt.Sprintf("%s|%d|%x", op, len(s), s[:min(len(s), 4)])
				run := c.Run
				c.Run = func() core.Result { r := run(); r.Key = key; return r }
				if !yield(c) {
					return
				}
				op2 := fmt.Sprintf("binary(copy=%v)", cp)
				c2 := scalarCase(op2, tbin.Bin(s), func(p *thrift.BinaryProtocol) error { return p.WriteBinary(s) }, func(p *thrift.BinaryProtocol) (interface{}, error) { return p.ReadBinary(cp) }, s)
				key2 := fmt.Sprintf("%s|%d|%x", op2, len(s), s[:min(len(s), 4)])
				run2 := c2.Run
				c2.Run = func() core.Result { r := run2(); r.Key = key2; return r }
				if !yield(c2) {
					return
				}
			}
		}
	case gHeaders:
		enumHeaders(yield)
	case gEnvelope:
		enumEnvelopes(tier, yield)
	case gPooled:
		enumPooled(yield)
	case gEncoding:
		enumEncoding(yield)
	default:
		sgs := shapeGroups(tier)
		sg := sgs[group-gFixed]
		maxN := 3
		if deep {
			maxN = 5
		}
		for _, s := range sg.shapes {
			for n := 0; n <= maxN; n++ {
				if n > 1 && s.Depth() == 0 {
					continue
				}
				g := &tbin.Gen{}
				v := g.Build(s, n)
				var ok bool
				switch sg.kind {
				case "any":
					ok = enumAny(s, v, n, yield)
				case "desc":
					ok = enumDesc(s, v, n, yield)
				case "skip":
					ok = enumSkip(s, v, n, yield)
					if ok && n == 2 && (hasString(s) || hasBinary(s)) {
						// same value with the first string grown past a page (4096..) to exercise long payload skips
						lv := tbin.Clone(v)
						growFirstString(lv, 4100)
						ok = enumSkip(s, lv, 4100, yield)
					}
				}
				if !ok {
					return
				}
			}
		}
	}
}

func min(a, b int) int {
	if a < b {
		return a
	}
	return b
}

var typeCodes = []thrift.Type{thrift.BOOL, thrift.BYTE, thrift.DOUBLE, thrift.I16, thrift.I32, thrift.I64, thrift.STRING, thrift.STRUCT, thrift.MAP, thrift.SET, thrift.LIST}

func enumHeaders(yield func(core.Case) bool) {
	sizes := []int{0, 1, 2, 127, 128, 255, 256, 65535, 65536, 1 << 24, math.MaxInt32}
	for _, et := range typeCodes {
		for _, n := range sizes {
			et, n := et, n
			for _, kind := range []string{"list", "set"} {
				kind := kind
				if !yield(mk("hdr:"+kind, fmt.Sprintf("%v,%d", et, n), func(r *core.Result) {
					ref := append([]byte{byte(et)}, binary.BigEndian.AppendUint32(nil, uint32(n))...)
					p := &thrift.BinaryProtocol{}
					var err error
					if kind == "list" {
						err = p.WriteListBegin(et, n)
					} else {
						err = p.WriteSetBegin(et, n)
					}
					if err != nil || !bytes.Equal(p.Buf, ref) {
						r.Add("hdr:"+kind+"|bytes-differ", "got %x err %v want %x", p.Buf, err, ref)
					}
					q := &thrift.BinaryProtocol{Buf: ref}
					var t2 thrift.Type
					var n2 int
					if kind == "list" {
						t2, n2, err = q.ReadListBegin()
					} else {
						t2, n2, err = q.ReadSetBegin()
					}
					if err != nil || t2 != et || n2 != n || q.Read != 5 {
						r.Add("hdr:"+kind+"|readback-differs", "got (%v,%d,%v) read=%d want (%v,%d)", t2, n2, err, q.Read, et, n)
					}
				})) {
					return
				}
			}
			for _, kt := range typeCodes {
				kt := kt
				if !yield(mk("hdr:map", fmt.Sprintf("%v,%v,%d", kt, et, n), func(r *core.Result) {
					ref := append([]byte{byte(kt), byte(et)}, binary.BigEndian.AppendUint32(nil, uint32(n))...)
					p := &thrift.BinaryProtocol{}
					err := p.WriteMapBegin(kt, et, n)
					if err != nil || !bytes.Equal(p.Buf, ref) {
						r.Add("hdr:map|bytes-differ", "got %x err %v want %x", p.Buf, err, ref)
					}
					q := &thrift.BinaryProtocol{Buf: ref}
					k2, t2, n2, err := q.ReadMapBegin()
					if err != nil || t2 != et || k2 != kt || n2 != n || q.Read != 6 {
						r.Add("hdr:map|readback-differs", "got (%v,%v,%d,%v) read=%d", k2, t2, n2, err, q.Read)
					}
				})) {
					return
				}
			}
		}
		for _, id := range []int{0, 1, 2, 127, 128, 255, 256, 257, 32767, -1, -32768} {
			et, id := et, id
			if !yield(mk("hdr:field", fmt.Sprintf("%v,%d", et, id), func(r *core.Result) {
				ref := append([]byte{byte(et)}, binary.BigEndian.AppendUint16(nil, uint16(id))...)
				p := &thrift.BinaryProtocol{}
				err := p.WriteFieldBegin("x", et, thrift.FieldID(id))
				if err != nil || !bytes.Equal(p.Buf, ref) {
					r.Add("hdr:field|bytes-differ", "got %x err %v want %x", p.Buf, err, ref)
				}
				q := &thrift.BinaryProtocol{Buf: ref}
				_, t2, id2, err := q.ReadFieldBegin()
				if err != nil || t2 != et || int(int16(id2)) != int(int16(id)) || q.Read != 3 {
					r.Add("hdr:field|readback-differs", "got (%v,%d,%v) read=%d", t2, id2, err, q.Read)
				}
				// BinaryEncoding twin
				b := make([]byte, 3)
				thrift.BinaryEncoding{}.EncodeFieldBegin(b, et, thrift.FieldID(id))
				if !bytes.Equal(b, ref) {
					r.Add("hdr:field|encoding-differs", "EncodeFieldBegin got %x want %x", b, ref)
				}
			})) {
				return
			}
		}
	}
	// field stop + struct end
	yield(mk("hdr:stop", "", func(r *core.Result) {
		p := &thrift.BinaryProtocol{}
		p.WriteStructBegin("s")
		p.WriteFieldStop()
		p2 := &thrift.BinaryProtocol{}
		p2.WriteStructBegin("s")
		p2.WriteStructEnd()
		if !bytes.Equal(p.Buf, []byte{0}) || !bytes.Equal(p2.Buf, []byte{0}) {
			r.Add("hdr:stop|bytes-differ", "got %x / %x", p.Buf, p2.Buf)
		}
		q := &thrift.BinaryProtocol{Buf: []byte{0}}
		_, t, _, err := q.ReadFieldBegin()
		if err != nil || t != thrift.STOP || q.Read != 1 {
			r.Add("hdr:stop|readback-differs", "got %v %v", t, err)
		}
	}))
}

func enumEnvelopes(tier string, yield func(core.Case) bool) {
	names := []string{"", "a", "Method_é", strings.Repeat("n", 255), strings.Repeat("m", 300)}
	types := []thrift.TMessageType{thrift.CALL, thrift.REPLY, thrift.EXCEPTION, thrift.ONEWAY}
	seqs := []int32{0, 1, -1, math.MinInt32, math.MaxInt32, 0x01020304}
	ids := []thrift.FieldID{0, 1, 2, 255, 256, 32767}
	g := &tbin.Gen{}
	bodies := [][]byte{
		tbin.Bytes(tbin.Struct()),
		tbin.Bytes(tbin.Struct(tbin.F(1, tbin.I32v(7)))),
		tbin.Bytes(g.Build(tbin.StructS(tbin.SF(1, tbin.ListS(tbin.Sc(tbin.STRING))), tbin.SF(2, tbin.MapS(tbin.Sc(tbin.I32), tbin.Sc(tbin.STRING)))), 2)),
		tbin.Bytes(tbin.Struct(tbin.F(3, tbin.Struct(tbin.F(1, tbin.Struct()))))),
		// bodies around and beyond the pooled protocol buffer (4096 bytes)
		tbin.Bytes(tbin.Struct(tbin.F(1, tbin.Str(strings.Repeat("b", 4060))))),
		tbin.Bytes(tbin.Struct(tbin.F(1, tbin.Str(strings.Repeat("B", 6000))))),
	}
	for _, name := range names {
		for _, mt := range types {
			for _, seq := range seqs {
				for _, id := range ids {
					for bi, body := range bodies {
						name, mt, seq, id, body := name, mt, seq, id, body
						in := fmt.Sprintf("name=%d:%.8s type=%d seq=%d id=%d body#%d", len(name), name, mt, seq, id, bi)
						if !yield(mk("envelope", in, func(r *core.Result) {
							// reference envelope: strict binary protocol message header
							var ref []byte
							ref = binary.BigEndian.AppendUint32(ref, 0x80010000|uint32(mt))
							ref = binary.BigEndian.AppendUint32(ref, uint32(len(name)))
							ref = append(ref, name...)
							ref = binary.BigEndian.AppendUint32(ref, uint32(seq))
							ref = append(ref, byte(tbin.STRUCT))
							ref = binary.BigEndian.AppendUint16(ref, uint16(id))
							hdrLen := len(ref)
							ref = append(ref, body...)
							ref = append(ref, 0)
							w, err := thrift.WrapBinaryBody(body, name, mt, id, seq)
							if err != nil {
								r.Add("envelope|wrap-error", "%v", err)
								return
							}
							if !bytes.Equal(w, ref) {
								r.Add("envelope|wrap-bytes-differ", "got %s want %s", hex(w), hex(ref))
							}
							if poolpoison.Aliased(w) {
								r.Add("envelope|wrapped-message-aliases-pooled-buffer", "the %d bytes returned by WrapBinaryBody change when the pooled protocol buffers are overwritten", len(w))
							}
							n2, t2, s2, id2, b2, err := thrift.UnwrapBinaryMessage(ref)
							if err != nil || n2 != name || t2 != mt || s2 != seq || id2 != id || !bytes.Equal(b2, body) {
								r.Add("envelope|unwrap-differs", "got (%q,%d,%d,%d,%s,%v)", n2, t2, s2, id2, hex(b2), err)
							}
							h, f, err := thrift.GetBinaryMessageHeaderAndFooter(name, mt, id, seq)
							if err != nil || !bytes.Equal(h, ref[:hdrLen]) || !bytes.Equal(f, []byte{0}) {
								r.Add("envelope|header-footer-differs", "header %s footer %x err %v want %s", hex(h), f, err, hex(ref[:hdrLen]))
							}
							// ReadMessageBegin with copy on the same bytes
							q := &thrift.BinaryProtocol{Buf: ref}
							n3, t3, s3, err := q.ReadMessageBegin(true)
							if err != nil || n3 != name || t3 != mt || s3 != seq {
								r.Add("envelope|readmsgbegin-differs", "got (%q,%d,%d,%v)", n3, t3, s3, err)
							}
						})) {
							return
						}
					}
				}
			}
		}
	}
}

// hasEmptyContainer: WriteAny cannot infer element types of empty containers (documented).
func hasEmptyContainer(v *tbin.Val) bool {
	switch v.T {
	case tbin.LIST, tbin.SET, tbin.MAP:
		if len(v.L) == 0 {
			return true
		}
	}
	for _, e := range v.L {
		if hasEmptyContainer(e) {
			return true
		}
	}
	for _, e := range v.K {
		if hasEmptyContainer(e) {
			return true
		}
	}
	for _, f := range v.Fs {
		if hasEmptyContainer(f.V) {
			return true
		}
	}
	return false
}

func hasSet(s *tbin.Shape) bool {
	if s.T == tbin.SET {
		return true
	}
	if s.Elem != nil && hasSet(s.Elem) {
		return true
	}
	if s.Key != nil && hasSet(s.Key) {
		return true
	}
	for _, f := range s.Fields {
		if hasSet(f.S) {
			return true
		}
	}
	return false
}
func hasList(s *tbin.Shape) bool {
	if s.T == tbin.LIST {
		return true
	}
	if s.Elem != nil && hasList(s.Elem) {
		return true
	}
	if s.Key != nil && hasList(s.Key) {
		return true
	}
	for _, f := range s.Fields {
		if hasList(f.S) {
			return true
		}
	}
	return false
}

func hasBinary(s *tbin.Shape) bool {
	if s.T == tbin.STRING && s.Binary {
		return true
	}
	if s.Elem != nil && hasBinary(s.Elem) {
		return true
	}
	if s.Key != nil && hasBinary(s.Key) {
		return true
	}
	for _, f := range s.Fields {
		if hasBinary(f.S) {
			return true
		}
	}
	return false
}
func hasString(s *tbin.Shape) bool {
	if s.T == tbin.STRING && !s.Binary {
		return true
	}
	if s.Elem != nil && hasString(s.Elem) {
		return true
	}
	if s.Key != nil && hasString(s.Key) {
		return true
	}
	for _, f := range s.Fields {
		if hasString(f.S) {
			return true
		}
	}
	return false
}

// keyClass is the trigger class of a shape for signatures: the "hardest" map key kind it contains.
func keyClass(s *tbin.Shape) string {
	cls := 0
	var walk func(s *tbin.Shape)
	walk = func(s *tbin.Shape) {
		if s.T == tbin.MAP {
			c := 1
			switch s.Key.T {
			case tbin.STRING:
				c = 1
			case tbin.BYTE, tbin.I16, tbin.I32, tbin.I64:
				c = 2
			default:
				c = 3
			}
			if c > cls {
				cls = c
			}
			walk(s.Key)
		}
		if s.Elem != nil {
			walk(s.Elem)
		}
		for _, f := range s.Fields {
			walk(f.S)
		}
	}
	walk(s)
	return [...]string{"nomap", "strkey", "intkey", "otherkey"}[cls]
}

// listify maps SET to LIST everywhere: the descriptor-free Go form ([]interface{}) cannot tell them apart.
func listify(v *tbin.Val) *tbin.Val {
	c := tbin.Clone(v)
	var walk func(v *tbin.Val)
	walk = func(v *tbin.Val) {
		if v.T == tbin.SET {
			v.T = tbin.LIST
		}
		if v.ET == tbin.SET {
			v.ET = tbin.LIST
		}
		if v.KT == tbin.SET {
			v.KT = tbin.LIST
		}
		for _, e := range v.L {
			walk(e)
		}
		for _, e := range v.K {
			walk(e)
		}
		for i := range v.Fs {
			if v.Fs[i].V.T == tbin.SET {
				// field header type
			}
			walk(v.Fs[i].V)
		}
	}
	walk(c)
	return c
}

func enumAny(s *tbin.Shape, v *tbin.Val, n int, yield func(core.Case) bool) bool {
	ref := tbin.Bytes(v)
	in := fmt.Sprintf("%s n=%d", s, n)
	// ReadAny over reference bytes, all flag sets
	for _, sb := range []bool{false, true} {
		for _, b8 := range []bool{false, true} {
			sb, b8 := sb, b8
			// strAsBinary applies to every STRING (the wire cannot tell), so expectation uses the flag only
			op := fmt.Sprintf("ReadAny(strAsBinary=%v,byteAsInt8=%v)", sb, b8)
			if !yield(mk(op, in, func(r *core.Result) {
				want := tutil.GoAny(v, sb, b8)
				p := &thrift.BinaryProtocol{Buf: ref}
				got, err := p.ReadAny(thrift.Type(v.T), sb, b8)
				if err != nil {
					r.Add("ReadAny|"+keyClass(s)+"|error", "%s: %v", in, err)
					return
				}
				if p.Read != len(ref) {
					r.Add("ReadAny|"+keyClass(s)+"|cursor", "%s: read %d of %d", in, p.Read, len(ref))
				}
				if !tutil.AnyEqual(got, want) {
					r.Add("ReadAny|"+keyClass(s)+"|value-differs", "%s: got %#v want %#v", in, got, want)
				}
			})) {
				return false
			}
		}
	}
	// WriteAny from the documented Go form. Element types of empty containers cannot be inferred
	// (documented: "empty ... is not supported"), so those are out of the statement's domain.
	if hasEmptyContainer(v) {
		return true
	}
	for _, asSet := range []bool{false, true} {
		asSet := asSet
		// sliceAsSet turns every slice into a SET, otherwise a LIST: the Go form []interface{} cannot tell
		// them apart, so the written value is compared modulo the LIST/SET type code.
		for _, sb := range []bool{false, true} {
			if sb && hasString(s) || !sb && hasBinary(s) {
				// []byte and string both write STRING; use the natural Go type per flag for all strings
			}
			for _, b8 := range []bool{false, true} {
				sb, b8 := sb, b8
				op := fmt.Sprintf("WriteAny(sliceAsSet=%v,bin=%v,int8=%v)", asSet, sb, b8)
				if !yield(mk(op, in, func(r *core.Result) {
					goval := tutil.GoAny(v, sb, b8)
					p := &thrift.BinaryProtocol{}
					t, err := p.WriteAny(tutil.GoAnyW(v, sb, b8), asSet)
					if err != nil {
						r.Add("WriteAny|"+keyClass(s)+"|error", "%s: %v", in, err)
						return
					}
					wantT := thrift.Type(v.T)
					if v.T == tbin.SET {
						wantT = thrift.LIST // GoType2ThriftType: a slice is LIST
					}
					if t != wantT {
						r.Add("WriteAny|"+keyClass(s)+"|type", "%s: returned type %v want %v", in, t, wantT)
					}
					dt := v.T
					if dt == tbin.SET && !asSet {
						dt = tbin.LIST
					}
					got, err := tbin.DecodeAll(p.Buf, dt)
					if err != nil {
						r.Add("WriteAny|"+keyClass(s)+"|malformed", "%s: output %s does not decode: %v (want %s)", in, hex(p.Buf), err, hex(ref))
						return
					}
					if !tutil.EqualUnordered(listify(got), listify(v)) {
						r.Add("WriteAny|"+keyClass(s)+"|value-differs", "%s: output decodes to %s want %s", in, got, v)
					}
					// read back through ReadAny
					q := &thrift.BinaryProtocol{Buf: p.Buf}
					back, err := q.ReadAny(t, sb, b8)
					if err != nil || !tutil.AnyEqual(back, goval) {
						r.Add("WriteAny|"+keyClass(s)+"|readback-differs", "%s: read back %#v err %v want %#v", in, back, err, goval)
					}
				})) {
					return false
				}
			}
		}
	}
	return true
}

func enumDesc(s *tbin.Shape, v *tbin.Val, n int, yield func(core.Case) bool) bool {
	ref := tbin.Bytes(v)
	in := fmt.Sprintf("%s n=%d", s, n)
	for _, u8 := range []bool{false, true} {
		for _, cp := range []bool{false, true} {
			for _, byName := range []bool{false, true} {
				u8, cp, byName := u8, cp, byName
				op := fmt.Sprintf("ReadAnyWithDesc(uint8=%v,copy=%v,name=%v)", u8, cp, byName)
				if !yield(mk(op, in, func(r *core.Result) {
					d := tutil.Desc(s)
					want := tutil.GoWithShape(v, s, u8, byName)
					p := &thrift.BinaryProtocol{Buf: ref}
					got, err := p.ReadAnyWithDesc(d, u8, cp, true, byName)
					if err != nil {
						r.Add("ReadAnyWithDesc|"+keyClass(s)+"|error", "%s: %v", in, err)
						return
					}
					if p.Read != len(ref) {
						r.Add("ReadAnyWithDesc|"+keyClass(s)+"|cursor", "%s: read %d of %d", in, p.Read, len(ref))
					}
					if !tutil.AnyEqual(got, want) {
						r.Add("ReadAnyWithDesc|"+keyClass(s)+"|value-differs", "%s: got %#v want %#v", in, got, want)
					}
				})) {
					return false
				}
			}
		}
	}
	for _, u8 := range []bool{false, true} {
		for _, byName := range []bool{false, true} {
			u8, byName := u8, byName
			op := fmt.Sprintf("WriteAnyWithDesc(uint8=%v,name=%v)", u8, byName)
			if !yield(mk(op, in, func(r *core.Result) {
				d := tutil.Desc(s)
				goval := tutil.GoWithShape(v, s, u8, byName)
				p := &thrift.BinaryProtocol{}
				// cast=true is needed for the int8 representation of BYTE (the non-cast path accepts byte only);
				// both representations are in the statement.
				err := p.WriteAnyWithDesc(d, goval, !u8, true, byName)
				if err != nil {
					r.Add("WriteAnyWithDesc|"+keyClass(s)+"|error", "%s: %v", in, err)
					return
				}
				got, err := tbin.DecodeAll(p.Buf, v.T)
				if err != nil {
					r.Add("WriteAnyWithDesc|"+keyClass(s)+"|malformed", "%s: output %s does not decode: %v (want %s)", in, hex(p.Buf), err, hex(ref))
					return
				}
				want := v
				if hasList(s) {
					// wire type code of LIST vs SET is taken from the descriptor
				}
				if !tutil.EqualUnordered(got, want) {
					r.Add("WriteAnyWithDesc|"+keyClass(s)+"|value-differs", "%s: output decodes to %s want %s", in, got, want)
				}
				q := &thrift.BinaryProtocol{Buf: p.Buf}
				back, err := q.ReadAnyWithDesc(d, u8, true, true, byName)
				if err != nil || !tutil.AnyEqual(back, goval) {
					r.Add("WriteAnyWithDesc|"+keyClass(s)+"|readback-differs", "%s: read back %#v err %v want %#v", in, back, err, goval)
				}
				// the same value with its integer-keyed maps held as map[int8|int16|int32|int64]interface{} (every
				// width the keys fit into, whatever the width of the descriptor's key type): same bytes
				for _, w := range []int{8, 16, 32, 64} {
					sized, changed, fits := retypeIntKeys(goval, w)
					if !changed || !fits {
						continue
					}
					p2 := &thrift.BinaryProtocol{}
					if err := p2.WriteAnyWithDesc(d, sized, !u8, true, byName); err != nil {
						r.Add("WriteAnyWithDesc|"+keyClass(s)+fmt.Sprintf(",go-keys-int%d", w)+"|error", "%s: %v", in, err)
						continue
					}
					if got2, err := tbin.DecodeAll(p2.Buf, v.T); err != nil {
						r.Add("WriteAnyWithDesc|"+keyClass(s)+fmt.Sprintf(",go-keys-int%d", w)+"|malformed", "%s written from %#v: output %s does not decode: %v (want %s)", in, sized, hex(p2.Buf), err, hex(ref))
					} else if !tutil.EqualUnordered(got2, want) {
						r.Add("WriteAnyWithDesc|"+keyClass(s)+fmt.Sprintf(",go-keys-int%d", w)+"|value-differs", "%s written from %#v: output decodes to %s want %s", in, sized, got2, want)
					}
				}
			})) {
				return false
			}
		}
	}
	return true
}

// retypeIntKeys rebuilds a generic Go value with every map[int]interface{} turned into the sized key type of the
// given width. changed: at least one map was rebuilt; fits: every key fits the width.
func retypeIntKeys(x interface{}, w int) (out interface{}, changed, fits bool) {
	fits = true
	var walk func(x interface{}) interface{}
	walk = func(x interface{}) interface{} {
		switch m := x.(type) {
		case []interface{}:
			o := make([]interface{}, len(m))
			for i, e := range m {
				o[i] = walk(e)
			}
			return o
		case map[string]interface{}:
			o := map[string]interface{}{}
			for k, e := range m {
				o[k] = walk(e)
			}
			return o
		case map[thrift.FieldID]interface{}:
			o := map[thrift.FieldID]interface{}{}
			for k, e := range m {
				o[k] = walk(e)
			}
			return o
		case map[interface{}]interface{}:
			o := map[interface{}]interface{}{}
			for k, e := range m {
				o[k] = walk(e)
			}
			return o
		case map[int]interface{}:
			changed = true
			switch w {
			case 8:
				o := map[int8]interface{}{}
				for k, e := range m {
					fits = fits && int(int8(k)) == k
					o[int8(k)] = walk(e)
				}
				return o
			case 16:
				o := map[int16]interface{}{}
				for k, e := range m {
					fits = fits && int(int16(k)) == k
					o[int16(k)] = walk(e)
				}
				return o
			case 32:
				o := map[int32]interface{}{}
				for k, e := range m {
					fits = fits && int(int32(k)) == k
					o[int32(k)] = walk(e)
				}
				return o
			}
			o := map[int64]interface{}{}
			for k, e := range m {
				o[int64(k)] = walk(e)
			}
			return o
		}
		return x
	}
	out = walk(x)
	return
}

func enumSkip(s *tbin.Shape, v *tbin.Val, n int, yield func(core.Case) bool) bool {
	ref := tbin.Bytes(v)
	in := fmt.Sprintf("%s n=%d", s, n)
	for _, native := range []bool{false, true} {
		for _, pad := range []int{0, 1, 9} {
			native, pad := native, pad
			op := fmt.Sprintf("Skip(native=%v,pad=%d)", native, pad)
			if !yield(mk(op, in, func(r *core.Result) {
				buf := append(append([]byte{}, ref...), bytes.Repeat([]byte{0x0b}, pad)...)
				p := &thrift.BinaryProtocol{Buf: buf}
				err := p.Skip(thrift.Type(v.T), native)
				if err != nil {
					r.Add(fmt.Sprintf("Skip(native=%v)|error", native), "%s: %v", in, err)
					return
				}
				if p.Read != len(ref) {
					r.Add(fmt.Sprintf("Skip(native=%v)|cursor", native), "%s: advanced %d want %d", in, p.Read, len(ref))
				}
			})) {
				return false
			}
		}
	}
	return true
}

// SelfCheck: the reference encoder/decoder agree with each other on every shape used here.
func (check) SelfCheck() error {
	var all []*tbin.Shape
	all = append(all, tbin.Scalars()...)
	all = append(all, tbin.T1()...)
	all = append(all, tbin.T2()...)
	all = append(all, tbin.T3Small()...)
	for _, s := range all {
		for n := 0; n <= 3; n++ {
			g := &tbin.Gen{}
			v := g.Build(s, n)
			b := tbin.Bytes(v)
			w, err := tbin.DecodeAll(b, v.T)
			if err != nil {
				return fmt.Errorf("%s n=%d: %v", s, n, err)
			}
			if !tbin.Equal(v, w) || w.End != len(b) {
				return fmt.Errorf("%s n=%d: decode(encode(v)) != v", s, n)
			}
		}
	}
	return tutil.CrossCheckGopkg(all)
}

func growFirstString(v *tbin.Val, n int) bool {
	if v.T == tbin.STRING {
		v.S = bytes.Repeat([]byte{'L'}, n)
		return true
	}
	for _, e := range v.K {
		if growFirstString(e, n) {
			return true
		}
	}
	for _, e := range v.L {
		if growFirstString(e, n) {
			return true
		}
	}
	for _, f := range v.Fs {
		if growFirstString(f.V, n) {
			return true
		}
	}
	return false
}

// enumPooled: the protocol objects handed out by NewBinaryProtocol / NewBinaryProtocolBuffer come from a pool.
// History of length 2 on the pool (deterministic LIFO pools): a first reader / writer over a value of size n1
// is used and recycled (Recycle / FreeBinaryProtocolBuffer), then a second one writes and reads a value of size
// n2: read(write(x)) == x with the cursor at the end, whatever the first object left behind. Sizes on both
// sides of 4 KiB (the default buffer), 64 KiB and 1 MiB.
func enumPooled(yield func(core.Case) bool) {
	sizes := []int{0, 1, 100, 4095, 4096, 4097, 65535, 65536, 65537, 1 << 20}
	for _, n1 := range sizes {
		for _, n2 := range []int{0, 1, 100, 5000} {
			for _, how := range []string{"reader+Recycle", "reader+Free", "writer+Free", "writer+Recycle"} {
				n1, n2, how := n1, n2, how
				c := core.Case{Tag: "pooled", Desc: func() interface{} {
					return map[string]interface{}{"op": "pooled protocol object reuse", "first": how, "first_payload_bytes": n1, "second_payload_bytes": n2}
				}, Run: func() core.Result {
					r := core.Result{Class: "ok", Key: fmt.Sprintf("pooled|%s|%d|%d", how, n1, n2)}
					vsync.Controlled = true
					vsync.Reset()
					defer func() { vsync.Controlled = false }()
					mk := func(n int, b byte) []byte {
						s := make([]byte, n)
						for i := range s {
							s[i] = b + byte(i%7)
						}
						return s
					}
					pi := core.Catch(func() {
						// first object
						w := thrift.NewBinaryProtocolBuffer()
						w.WriteBinary(mk(n1, 'a'))
						enc1 := append([]byte{}, w.Buf...)
						switch how {
						case "writer+Free":
							thrift.FreeBinaryProtocolBuffer(w)
						case "writer+Recycle":
							w.Recycle()
						default:
							thrift.FreeBinaryProtocolBuffer(w)
							rd := thrift.NewBinaryProtocol(enc1)
							got, err := rd.ReadBinary(true)
							if err != nil || !bytes.Equal(got, mk(n1, 'a')) || rd.Read != len(enc1) {
								r.Add("pooled|first-reader|readback-differs", "first reader over %d bytes: err=%v read=%d of %d", n1, err, rd.Read, len(enc1))
							}
							if how == "reader+Recycle" {
								rd.Recycle()
							} else {
								thrift.FreeBinaryProtocolBuffer(rd)
							}
						}
						want := mk(n2, 'k')
						// second object, variant A: a pooled READER is the very next user of the pool
						{
							enc := tbin.Bytes(tbin.Bin(want))
							rdA := thrift.NewBinaryProtocol(enc)
							got, err := rdA.ReadBinary(true)
							if err != nil || !bytes.Equal(got, want) || rdA.Read != len(enc) {
								r.Add("pooled|next-reader|readback-differs", "after %s over %d bytes: the next pooled reader over %d bytes: err=%v cursor=%d want %d equal=%v", how, n1, n2, err, rdA.Read, len(enc), bytes.Equal(got, want))
							}
							rdA.Recycle()
						}
						// variant B: write, then read through a pooled reader
						w2 := thrift.NewBinaryProtocolBuffer()
						if err := w2.WriteBinary(want); err != nil {
							r.Add("pooled|second-writer|error", "%v", err)
						}
						enc2 := append([]byte{}, w2.Buf...)
						if ref := tbin.Bytes(tbin.Bin(want)); !bytes.Equal(enc2, ref) {
							r.Add("pooled|second-writer|bytes-differ", "after %s over %d bytes: wrote %x.. want %x..", how, n1, enc2[:min(len(enc2), 16)], ref[:min(len(ref), 16)])
						}
						thrift.FreeBinaryProtocolBuffer(w2)
						rd2 := thrift.NewBinaryProtocol(enc2)
						got, err := rd2.ReadBinary(true)
						if err != nil || !bytes.Equal(got, want) || rd2.Read != len(enc2) {
							r.Add("pooled|second-reader|readback-differs", "after %s over %d bytes: reading %d bytes: err=%v cursor=%d want %d equal=%v", how, n1, n2, err, rd2.Read, len(enc2), bytes.Equal(got, want))
						}
						rd2.Recycle()
					})
					if pi != nil {
						r.Add("pooled|panic@"+pi.Site+":"+core.PanicClass(pi.Val), "%s\n%s", pi.Val, pi.Stack)
					}
					if len(r.Viol) > 0 {
						r.Class = "violation"
					}
					return r
				}}
				if !yield(c) {
					return
				}
			}
		}
	}
}

// ---------- BinaryEncoding: the slice-level twin of the protocol writer / reader ----------

// dirty returns a buffer holding prefix whose spare capacity (spare bytes) is filled with 0xAA, as a buffer
// reused through buf[:0] after an earlier message is.
func dirty(prefix []byte, spare int) []byte {
	a := make([]byte, len(prefix)+spare)
	for i := range a {
		a[i] = 0xAA
	}
	copy(a, prefix)
	return a[:len(prefix)]
}

func enumEncoding(yield func(core.Case) bool) {
	enc := thrift.BinaryEncoding{}
	// scalars into a dirty slice of exactly their size: bytes as the reference, read back by the Decode twin
	type sc struct {
		name string
		v    *tbin.Val
		put  func(b []byte)
		get  func(b []byte) interface{}
		want interface{}
	}
	var scs []sc
	for _, b := range []bool{false, true} {
		b := b
		scs = append(scs, sc{"EncodeBool", tbin.Bool(b), func(x []byte) { enc.EncodeBool(x, b) }, func(x []byte) interface{} { return enc.DecodeBool(x) }, b})
	}
	for i := 0; i < 256; i++ {
		x := byte(i)
		scs = append(scs, sc{"EncodeByte", tbin.Byte(int8(x)), func(b []byte) { enc.EncodeByte(b, x) }, func(b []byte) interface{} { return enc.DecodeByte(b) }, x})
	}
	for _, v := range i64Family() {
		v := v
		if int64(int16(v)) == v {
			scs = append(scs, sc{"EncodeInt16", tbin.I16v(int16(v)), func(b []byte) { enc.EncodeInt16(b, int16(v)) }, func(b []byte) interface{} { return enc.DecodeInt16(b) }, int16(v)})
		}
		if int64(int32(v)) == v {
			scs = append(scs, sc{"EncodeInt32", tbin.I32v(int32(v)), func(b []byte) { enc.EncodeInt32(b, int32(v)) }, func(b []byte) interface{} { return enc.DecodeInt32(b) }, int32(v)})
		}
		scs = append(scs, sc{"EncodeInt64", tbin.I64v(v), func(b []byte) { enc.EncodeInt64(b, v) }, func(b []byte) interface{} { return enc.DecodeInt64(b) }, v})
	}
	for _, f := range f64Family() {
		f := f
		scs = append(scs, sc{"EncodeDouble", tbin.Double(f), func(b []byte) { enc.EncodeDouble(b, f) }, func(b []byte) interface{} { return math.Float64bits(enc.DecodeDouble(b)) }, math.Float64bits(f)})
	}
	for _, str := range strFamily() {
		str := str
		if len(str) > 300 {
			continue
		}
		scs = append(scs, sc{"EncodeString", tbin.Str(string(str)), func(b []byte) { enc.EncodeString(b, string(str)) }, func(b []byte) interface{} { return enc.DecodeString(b) }, string(str)})
		scs = append(scs, sc{"EncodeBinary", tbin.Bin(str), func(b []byte) { enc.EncodeBinary(b, str) }, func(b []byte) interface{} { return enc.DecodeBytes(b) }, append([]byte{}, str...)})
	}
	for _, c := range scs {
		c := c
		if !yield(mk("enc:"+c.name, c.v.String(), func(r *core.Result) {
			ref := tbin.Bytes(c.v)
			b := dirty(nil, len(ref))[:len(ref)]
			c.put(b)
			if !bytes.Equal(b, ref) {
				r.Add("enc:"+c.name+"|bytes-differ", "%s: got %x want %x", c.v, b, ref)
			}
			if got := c.get(append([]byte{}, ref...)); !tutil.AnyEqual(got, c.want) {
				r.Add("enc:"+c.name+"|readback-differs", "%s: got %#v want %#v", c.v, got, c.want)
			}
			// the value at a fixed offset of a larger buffer: other encoded values follow it
			if got := c.get(append(append([]byte{}, ref...), 0, 0, 0, 3, 1, 2, 3, 0xAB)); !tutil.AnyEqual(got, c.want) {
				r.Add("enc:"+c.name+"|readback-differs-when-other-bytes-follow", "%s followed by 8 more bytes: got %#v want %#v", c.v, got, c.want)
			}
		})) {
			return
		}
	}
	// EncodeEmpty: every type (x element / key types for containers) appended to a fresh buffer, to a buffer with
	// a prefix and to reused buffers with 0..16 dirty spare bytes: prefix kept, appended bytes = the encoding of
	// the zero value, nothing else
	all := []thrift.Type{thrift.BOOL, thrift.BYTE, thrift.I16, thrift.I32, thrift.I64, thrift.DOUBLE, thrift.STRING, thrift.STRUCT, thrift.MAP, thrift.SET, thrift.LIST}
	zero := func(t, et, kt thrift.Type) []byte {
		switch t {
		case thrift.BOOL, thrift.BYTE, thrift.STRUCT:
			return []byte{0}
		case thrift.I16:
			return []byte{0, 0}
		case thrift.I32, thrift.STRING:
			return []byte{0, 0, 0, 0}
		case thrift.I64, thrift.DOUBLE:
			return make([]byte, 8)
		case thrift.MAP:
			return []byte{byte(kt), byte(et), 0, 0, 0, 0}
		}
		return []byte{byte(et), 0, 0, 0, 0}
	}
	for _, t := range all {
		ets, kts := []thrift.Type{0}, []thrift.Type{0}
		if t == thrift.LIST || t == thrift.SET || t == thrift.MAP {
			ets = all
		}
		if t == thrift.MAP {
			kts = all
		}
		for _, et := range ets {
			for _, kt := range kts {
				t, et, kt := t, et, kt
				if !yield(mk("enc:EncodeEmpty", fmt.Sprintf("%v<%v,%v>", t, kt, et), func(r *core.Result) {
					want := zero(t, et, kt)
					for _, prefix := range [][]byte{nil, {}, {0x0b, 1, 2}} {
						for spare := -1; spare <= 16; spare++ {
							var in []byte
							if spare >= 0 {
								in = dirty(prefix, spare)
							} else {
								in = prefix // fresh: no spare capacity at all (nil stays nil)
							}
							out, err := enc.EncodeEmpty(t, et, kt, in)
							if err != nil {
								r.Add("enc:EncodeEmpty|error", "type %v prefix %x spare %d: %v", t, prefix, spare, err)
								return
							}
							if !bytes.Equal(out, append(append([]byte{}, prefix...), want...)) {
								r.Add("enc:EncodeEmpty|bytes-differ", "type %v<%v,%v> appended to %x (spare capacity %d, dirty): got %x want %x%x", t, kt, et, prefix, spare, out, prefix, want)
								return
							}
						}
					}
				})) {
					return
				}
			}
		}
	}
}
