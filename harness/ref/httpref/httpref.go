// Package httpref is the decision-table reference model of dynamicgo's HTTP mapping (property C17):
// a pure function from (annotation list, which request sources carry a value, options) to the set of
// acceptable outcomes for one annotated field, and the symmetric table for responses.
// It is derived from the property statement and the documented options (conv/api.go):
//
//	request:  the value comes from the FIRST listed source that has one; if none has one,
//	          ReadHttpValueFallback lets the field fall back to the member of the JSON body,
//	          TracebackRequredOrRootFields lets required / root-level fields be looked up in the http
//	          values under the field's own key, otherwise Write{Require,Default,Optional}Field decide
//	          between zero/default filling, leaving the field out, and a missing-required-field error.
//	response: the value goes to the first listed target that takes it (header / cookie / status / raw body)
//	          and is then omitted from the JSON body; a target that refuses the value is an error unless
//	          OmitHttpMappingErrors, after which the next target is tried; if no target took it,
//	          WriteHttpValueFallback puts the field into the JSON body, otherwise it is dropped.
//
// Where the documentation leaves two readings open the table returns both outcomes (the check then
// accepts either, but nothing else). No dependency on dynamicgo.
package httpref

// Source of a request value / target of a response value.
type Source string

const (
	Query   Source = "query"
	Path    Source = "path"
	Header  Source = "header"
	Cookie  Source = "cookie"
	Form    Source = "form"
	Body    Source = "body"
	RawBody Source = "raw_body"
	RawURI  Source = "raw_uri"
	Code    Source = "http_code"
)

// Requiredness of the field.
type Requiredness int

const (
	Default  Requiredness = 0
	Required Requiredness = 1
	Optional Requiredness = 2
)

// Kind of outcome.
type Kind string

const (
	FromSource    Kind = "source"    // value of Outcome.Src
	FromBody      Kind = "body"      // the JSON body member of the field (fallback)
	FromTraceback Kind = "traceback" // the http value found under the field's own key
	Zero          Kind = "zero"      // zero value (or the IDL default)
	Absent        Kind = "absent"    // field not written
	Error         Kind = "error"     // conversion fails
	ToTarget      Kind = "target"    // response: delivered to Outcome.Src, omitted from the body
	ToBody        Kind = "to-body"   // response: stays in the JSON body
	Dropped       Kind = "dropped"   // response: neither delivered nor in the body
)

type Outcome struct {
	K   Kind
	Src Source
}

// ReqOpts are the conversion options that matter for a request field.
type ReqOpts struct {
	ReadFallback  bool // ReadHttpValueFallback
	Traceback     bool // TracebackRequredOrRootFields
	WriteRequire  bool
	WriteDefault  bool
	WriteOptional bool
}

// ReqCase describes one annotated request field in one request.
type ReqCase struct {
	Sources []Source        // the annotation list, left to right
	Has     map[Source]bool // listed sources that carry a non-empty value in this request
	Req     Requiredness
	Root    bool // the field is on the top layer of the request struct
	// BodyMember: the JSON body has a member for the field (at the field's layer).
	BodyMember bool
	// TracebackHit: some http value (path param, query, header, cookie, body-map member) exists under the field's own key.
	TracebackHit bool
	// NoJSONBody: the request has no JSON body (empty or form body). The traceback is documented as happening
	// "when reading failed from current layer of json"; without a JSON document both readings are accepted.
	NoJSONBody bool
	// EmptyRawBody: api.raw_body is listed and the request body is empty. The documentation does not say whether
	// the empty text counts as a value, so "stop at raw_body with nothing" is accepted next to "try the next source".
	EmptyRawBody bool
}

func unfilled(r Requiredness, o ReqOpts) Outcome {
	switch r {
	case Required:
		if o.WriteRequire {
			return Outcome{K: Zero}
		}
		return Outcome{K: Error}
	case Optional:
		if o.WriteOptional {
			return Outcome{K: Zero}
		}
		return Outcome{K: Absent}
	default:
		if o.WriteDefault {
			return Outcome{K: Zero}
		}
		return Outcome{K: Absent}
	}
}

// DecideRequest returns the acceptable outcomes (usually one).
func DecideRequest(c ReqCase, o ReqOpts) []Outcome {
	for _, s := range c.Sources {
		if c.Has[s] {
			return []Outcome{{K: FromSource, Src: s}}
		}
		if s == RawBody && c.EmptyRawBody {
			// second reading: the empty raw body is "the value" and nothing further is tried
			c2 := c
			c2.EmptyRawBody = false
			return append(DecideRequest(c2, o), unfilled(c.Req, o))
		}
	}
	if o.ReadFallback && c.BodyMember {
		return []Outcome{{K: FromBody}}
	}
	base := unfilled(c.Req, o)
	if o.Traceback && (c.Root || c.Req == Required) && c.TracebackHit {
		if o.ReadFallback && !c.NoJSONBody {
			// both options on: the documented combination (the traceback is performed)
			return []Outcome{{K: FromTraceback}}
		}
		// the documentation does not say whether the traceback needs ReadHttpValueFallback as well
		return []Outcome{{K: FromTraceback}, base}
	}
	if c.NoJSONBody && o.ReadFallback && c.TracebackHit {
		// without a JSON body ReadHttpValueFallback alone makes the converter look the field up under its own key
		// (the repository's TestNobodyRequiredFields relies on it); the option's comment does not say so: both accepted
		return []Outcome{{K: FromTraceback}, base}
	}
	return []Outcome{base}
}

// RespOpts are the conversion options that matter for a response field.
type RespOpts struct {
	WriteFallback bool // WriteHttpValueFallback
	OmitErrors    bool // OmitHttpMappingErrors
}

// RespCase describes one annotated response field that is present in the thrift message.
type RespCase struct {
	Targets []Source        // annotation list, left to right
	Accepts map[Source]bool // does the target take the text form of the value (http_code needs an integer)
}

// DecideResponse returns the acceptable outcome for a field that is set in the message.
func DecideResponse(c RespCase, o RespOpts) Outcome {
	for _, t := range c.Targets {
		if c.Accepts[t] {
			return Outcome{K: ToTarget, Src: t}
		}
		if !o.OmitErrors {
			return Outcome{K: Error}
		}
	}
	if o.WriteFallback {
		return Outcome{K: ToBody}
	}
	return Outcome{K: Dropped}
}
