// Package poolpoison overwrites the buffers that sit in the converters' shared byte pool (conv.NewBytes /
// conv.FreeBytes). A result a converter handed to its caller must be the caller's own memory: if it is (part of) a
// buffer that went back into the pool, the next conversion overwrites it. Poisoning right after a call makes that
// visible without depending on what a later conversion happens to write.
package poolpoison

import (
	"bytes"

	"github.com/cloudwego/dynamicgo/conv"
	pbinary "github.com/cloudwego/dynamicgo/proto/binary"
	"github.com/cloudwego/dynamicgo/thrift"
)

// ConvBuffers takes up to n buffers out of the pool, fills their whole capacity with 0xDB and puts them back.
func ConvBuffers(n int) {
	var bs []*[]byte
	for i := 0; i < n; i++ {
		b := conv.NewBytes()
		s := (*b)[:cap(*b)]
		for j := range s {
			s[j] = 0xDB
		}
		bs = append(bs, b)
	}
	for i := len(bs) - 1; i >= 0; i-- {
		conv.FreeBytes(bs[i])
	}
	// the pooled protocol objects of both codecs keep a buffer of their own
	var tps []*thrift.BinaryProtocol
	var pps []*pbinary.BinaryProtocol
	for i := 0; i < n; i++ {
		tp := thrift.NewBinaryProtocolBuffer()
		for j, b := 0, tp.Buf[:cap(tp.Buf)]; j < len(b); j++ {
			b[j] = 0xDB
		}
		tps = append(tps, tp)
		pp := pbinary.NewBinaryProtocolBuffer()
		for j, b := 0, pp.Buf[:cap(pp.Buf)]; j < len(b); j++ {
			b[j] = 0xDB
		}
		pps = append(pps, pp)
	}
	for i := len(tps) - 1; i >= 0; i-- {
		thrift.FreeBinaryProtocolBuffer(tps[i])
		pbinary.FreeBinaryProtocol(pps[i])
	}
}

// Aliased reports whether out (a result just returned) changes when the pooled buffers are poisoned. out is
// restored from the copy afterwards so that the caller can go on judging it.
func Aliased(out []byte) bool {
	if len(out) == 0 {
		return false
	}
	keep := append([]byte{}, out...)
	ConvBuffers(4)
	if bytes.Equal(out, keep) {
		return false
	}
	copy(out, keep)
	return true
}
