package deephash

import "testing"

type inner struct {
	a int
	s string
	m map[string]*inner
	l []int
	b []byte
	i interface{}
	p *inner
}

func mk() *inner {
	x := &inner{a: 1, s: "x", m: map[string]*inner{"k": {a: 2}, "j": {a: 3, l: []int{1, 2}}}, l: []int{4, 5}, b: []byte("ab"), i: inner{a: 9}}
	x.p = x
	return x
}

func TestStableAndSensitive(t *testing.T) {
	x := mk()
	h0, n := Of(x)
	if n < 20 {
		t.Fatalf("only %d terms", n)
	}
	for i := 0; i < 20; i++ {
		if h, _ := Of(x); h != h0 {
			t.Fatalf("unstable")
		}
	}
	muts := []func(){
		func() { x.a++ }, func() { x.s = "y" }, func() { x.m["k"].a++ }, func() { x.m["j"].l[1]++ }, func() { x.m["n"] = nil },
		func() { x.l[0]++ }, func() { x.b[1]++ }, func() { x.i = inner{a: 10} }, func() { x.p = nil }, func() { delete(x.m, "k") },
		func() { x.l = append(x.l, 1) },
	}
	for i, m := range muts {
		x = mk()
		// a fresh graph has other addresses: compare before/after on the same graph
		b, _ := Of(x)
		m()
		a, _ := Of(x)
		if a == b {
			t.Fatalf("mutation %d not seen", i)
		}
	}
}
