// Package deephash computes an order-independent fingerprint of everything reachable from a set of Go values,
// unexported fields included: every scalar, string, pointer identity, slice header and map entry contributes
// one term keyed by its location in the object graph. Two fingerprints taken at different times are equal iff
// no reachable memory word changed (up to 64-bit hash collisions): the "built once, read-only afterwards"
// oracle for descriptor graphs.
package deephash

import (
	"hash/fnv"
	"math"
	"reflect"
	"unsafe"
)

type seenKey struct {
	p uintptr
	n int
	t reflect.Type
}

type hasher struct {
	acc  uint64
	n    int
	seen map[seenKey]bool
}

func mix(a ...uint64) uint64 {
	h := uint64(0x9e3779b97f4a7c15)
	for _, x := range a {
		h ^= x + 0x9e3779b97f4a7c15 + (h << 6) + (h >> 2)
		h *= 0xff51afd7ed558ccd
		h ^= h >> 33
	}
	return h
}

func strHash(s string) uint64 {
	f := fnv.New64a()
	f.Write([]byte(s))
	return f.Sum64()
}

// Of returns the fingerprint and the number of terms (memory words / entries) it covers.
func Of(roots ...interface{}) (uint64, int) {
	h := &hasher{seen: map[seenKey]bool{}}
	for i, r := range roots {
		v := reflect.ValueOf(r)
		h.visit(v, mix(uint64(i), 0xabcdef))
	}
	return h.acc, h.n
}

func (h *hasher) term(x uint64) {
	h.acc += x
	h.n++
}

// clean returns v without the read-only flag of values reached through unexported fields.
func clean(v reflect.Value) reflect.Value {
	if v.CanInterface() {
		return v
	}
	if v.CanAddr() {
		return reflect.NewAt(v.Type(), unsafe.Pointer(v.UnsafeAddr())).Elem()
	}
	return v
}

func (h *hasher) visit(v reflect.Value, loc uint64) {
	if !v.IsValid() {
		h.term(mix(loc, 0))
		return
	}
	v = clean(v)
	k := uint64(v.Kind())
	switch v.Kind() {
	case reflect.Bool:
		b := uint64(0)
		if v.Bool() {
			b = 1
		}
		h.term(mix(loc, k, b))
	case reflect.Int, reflect.Int8, reflect.Int16, reflect.Int32, reflect.Int64:
		h.term(mix(loc, k, uint64(v.Int())))
	case reflect.Uint, reflect.Uint8, reflect.Uint16, reflect.Uint32, reflect.Uint64, reflect.Uintptr:
		h.term(mix(loc, k, v.Uint()))
	case reflect.Float32, reflect.Float64:
		h.term(mix(loc, k, math.Float64bits(v.Float())))
	case reflect.Complex64, reflect.Complex128:
		c := v.Complex()
		h.term(mix(loc, k, math.Float64bits(real(c)), math.Float64bits(imag(c))))
	case reflect.String:
		s := v.String()
		h.term(mix(loc, k, uint64(len(s)), strHash(s)))
	case reflect.UnsafePointer, reflect.Chan, reflect.Func:
		h.term(mix(loc, k, uint64(v.Pointer())))
	case reflect.Ptr:
		p := v.Pointer()
		h.term(mix(loc, k, uint64(p)))
		if p == 0 {
			return
		}
		sk := seenKey{p, 0, v.Type()}
		if h.seen[sk] {
			return
		}
		h.seen[sk] = true
		h.visit(v.Elem(), mix(uint64(p), 1))
	case reflect.Interface:
		if v.IsNil() {
			h.term(mix(loc, k, 0))
			return
		}
		e := v.Elem()
		h.term(mix(loc, k, strHash(e.Type().String())))
		c := reflect.New(e.Type()).Elem()
		c.Set(e)
		h.visit(c, mix(loc, 2))
	case reflect.Slice:
		p, n := v.Pointer(), v.Len()
		h.term(mix(loc, k, uint64(p), uint64(n)))
		if p == 0 || n == 0 {
			return
		}
		sk := seenKey{p, n, v.Type()}
		if h.seen[sk] {
			return
		}
		h.seen[sk] = true
		if v.Type().Elem().Kind() == reflect.Uint8 {
			f := fnv.New64a()
			f.Write(clean(v).Bytes())
			h.term(mix(uint64(p), 3, f.Sum64()))
			return
		}
		for i := 0; i < n; i++ {
			h.visit(v.Index(i), mix(uint64(p), 4, uint64(i)))
		}
	case reflect.Array:
		for i := 0; i < v.Len(); i++ {
			h.visit(v.Index(i), mix(loc, 5, uint64(i)))
		}
	case reflect.Struct:
		if !v.CanAddr() {
			c := reflect.New(v.Type()).Elem()
			c.Set(v)
			v = c
		}
		for i := 0; i < v.NumField(); i++ {
			h.visit(v.Field(i), mix(loc, 6, uint64(i)))
		}
	case reflect.Map:
		p := v.Pointer()
		h.term(mix(loc, k, uint64(p), uint64(v.Len())))
		if p == 0 {
			return
		}
		sk := seenKey{p, 0, v.Type()}
		if h.seen[sk] {
			return
		}
		h.seen[sk] = true
		it := v.MapRange()
		for it.Next() {
			kc := reflect.New(v.Type().Key()).Elem()
			kc.Set(it.Key())
			kh := &hasher{seen: map[seenKey]bool{}}
			kh.visitKey(kc)
			vc := reflect.New(v.Type().Elem()).Elem()
			vc.Set(it.Value())
			eloc := mix(uint64(p), 7, kh.acc)
			h.term(eloc)
			h.visit(vc, eloc)
		}
	default:
		h.term(mix(loc, k))
	}
}

// visitKey hashes a map key by content (pointers by identity), without following pointers.
func (h *hasher) visitKey(v reflect.Value) {
	switch v.Kind() {
	case reflect.Ptr, reflect.UnsafePointer, reflect.Chan, reflect.Func:
		h.term(mix(uint64(v.Kind()), uint64(v.Pointer())))
	case reflect.Struct:
		for i := 0; i < v.NumField(); i++ {
			s := &hasher{seen: h.seen}
			s.visitKey(clean(v.Field(i)))
			h.term(mix(uint64(i), s.acc))
		}
	case reflect.Array:
		for i := 0; i < v.Len(); i++ {
			s := &hasher{seen: h.seen}
			s.visitKey(v.Index(i))
			h.term(mix(uint64(i), s.acc))
		}
	case reflect.Interface:
		if v.IsNil() {
			h.term(1)
			return
		}
		e := v.Elem()
		c := reflect.New(e.Type()).Elem()
		c.Set(e)
		h.term(strHash(e.Type().String()))
		h.visitKey(c)
	default:
		s := &hasher{seen: map[seenKey]bool{}}
		s.visit(v, 11)
		h.term(s.acc)
	}
}
