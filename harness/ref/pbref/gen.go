package pbref

import (
	"fmt"
	"math"
	"strings"
)

// ---------- scalar alphabets

// Alphabet returns the boundary alphabet of a scalar kind, default value first (simplest first).
func Alphabet(k Kind) []*Val {
	var out []*Val
	add := func(v *Val) {
		for _, o := range out {
			if Equal(o, v) {
				return
			}
		}
		out = append(out, v)
	}
	switch k {
	case KBool:
		add(Bool(false))
		add(Bool(true))
	case KInt32, KSint32, KSfixed32, KEnum:
		for _, x := range []int64{0, 1, -1, 2, 63, 64, -64, -65, 127, 128, 300, 16383, 16384, -16384, 1 << 21, 1<<28 - 1, 1 << 28, math.MaxInt32, math.MinInt32, math.MinInt32 + 1} {
			add(Int(k, x))
		}
	case KUint32, KFixed32:
		for _, x := range []uint64{0, 1, 2, 127, 128, 255, 256, 16383, 16384, 1<<21 - 1, 1 << 21, 1<<28 - 1, 1 << 28, 1<<31 - 1, 1 << 31, 1<<32 - 1} {
			add(Scalar(k, x))
		}
	case KInt64, KSint64, KSfixed64:
		for _, x := range []int64{0, 1, -1, 2, 63, 64, -64, -65, 127, 128, 16384, 1 << 31, -(1 << 31), 1 << 32, 1<<35 - 1, 1 << 35, 1<<42 - 1, 1 << 49, 1<<53 + 1, 1<<56 - 1, 1 << 56, 1<<62 - 1, 1 << 62, -(1 << 62) - 1, math.MaxInt64, math.MinInt64} {
			add(Int(k, x))
		}
	case KUint64, KFixed64:
		for _, x := range []uint64{0, 1, 127, 128, 16383, 16384, 1 << 32, 1<<35 - 1, 1 << 35, 1 << 42, 1 << 49, 1<<56 - 1, 1 << 56, 1<<63 - 1, 1 << 63, 1<<64 - 1} {
			add(Scalar(k, x))
		}
	case KFloat:
		for _, b := range []uint32{0, 0x3f800000, 0xbfc00000, 0x80000000, 0x00000001, 0x7f7fffff, 0x7f800000, 0xff800000, 0x7fc00000, 0x7fc00001, 0xffc00000, 0x3dcccccd, 0x4b000001} {
			add(Scalar(k, uint64(b)))
		}
	case KDouble:
		for _, f := range []float64{0, 1, -1.5, math.Copysign(0, -1), 0.1, 1e21, 1e-7, 5e-324, math.MaxFloat64, math.Inf(1), math.Inf(-1)} {
			add(F64(f))
		}
		add(Scalar(k, 0x7ff8000000000001)) // NaN
		add(Scalar(k, 0x7ff0000000000001)) // signalling NaN payload
	case KString:
		for _, s := range []string{"", "a", "é", "\"\\\n", " ", "ab\x00cd", strings.Repeat("s", 15), strings.Repeat("t", 127), strings.Repeat("u", 128), strings.Repeat("v", 300)} {
			add(Str(s))
		}
	case KBytes:
		add(Bytes(nil))
		add(Bytes([]byte{0}))
		add(Bytes([]byte{0xff, 0xfe, 0x80}))
		add(Bytes([]byte{0x0a, 0x01, 0x08})) // looks like a nested field
		add(Bytes(rep(0x12, 127)))
		add(Bytes(rep(0x0a, 128)))
	default:
		panic("pbref.Alphabet: " + k.String())
	}
	return out
}

func rep(b byte, n int) []byte {
	out := make([]byte, n)
	for i := range out {
		out[i] = b
	}
	return out
}

// Elem returns the i-th position-distinct, NON-default value of a scalar kind (i = 0..5). Values of neighbouring
// positions differ in encoded width, so that returning a neighbour or mis-measuring an element is visible.
func Elem(k Kind, i int) *Val {
	switch k {
	case KBool:
		return Bool(true) // a list of bools cannot be position-distinct without the default; lists use ElemD
	case KInt32, KSint32, KSfixed32:
		return Int(k, []int64{1, -2, 300, -70000, math.MaxInt32, math.MinInt32}[i%6]+int64(i/6))
	case KEnum:
		return Int(k, []int64{1, 2, -1, 2147483647, 1, 2}[i%6])
	case KUint32, KFixed32:
		return Scalar(k, []uint64{1, 200, 70000, 1<<32 - 1, 1 << 31, 127}[i%6]+uint64(i/6))
	case KInt64, KSint64, KSfixed64:
		return Int(k, []int64{1, -2, 300, -(1 << 40), math.MaxInt64, math.MinInt64}[i%6]+int64(i/6))
	case KUint64, KFixed64:
		return Scalar(k, []uint64{1, 200, 1 << 40, 1<<64 - 1, 1 << 63, 127}[i%6]+uint64(i/6))
	case KFloat:
		return F32([]float32{1, -1.5, 0.1, 3e38, -7, 1e-40}[i%6])
	case KDouble:
		return F64([]float64{1, -1.5, 0.1, 1e300, -7, 5e-324}[i%6])
	case KString:
		return Str([]string{"s0", "s1é", "", "s3" + strings.Repeat("x", 130), "s4", "s5"}[i%6])
	case KBytes:
		return Bytes([][]byte{{0xb0}, {0xb1, 0x00}, {}, rep(0xb3, 129), {0x0a, 0x00}, {0xb5}}[i%6])
	}
	panic("pbref.Elem: " + k.String())
}

// ElemD is Elem for container elements, where default values are legal on the wire: position 2 of every kind is the
// default value (so empty strings, zeros and false occur inside lists and maps).
func ElemD(k Kind, i int) *Val {
	if i%6 == 2 {
		return Alphabet(k)[0]
	}
	if k == KBool {
		return Bool(i%2 == 0)
	}
	return Elem(k, i)
}

// KeyElem is the i-th distinct map key of a key kind (i=0..3); position 2 is the default key.
func KeyElem(k Kind, i int) *Val {
	if k == KBool {
		return Bool(i%2 == 0)
	}
	if k == KString {
		return Str([]string{"k0", "kéy1", "", "k3" + strings.Repeat("y", 126)}[i%4])
	}
	return ElemD(k, []int{0, 1, 2, 3}[i%4])
}

// ---------- programs (schemas)

func fld(name string, num int32, k Kind) *Field { return &Field{Name: name, Num: num, Kind: k} }
func rfld(name string, num int32, k Kind) *Field {
	return &Field{Name: name, Num: num, Kind: k, Card: Repeated}
}
func mfld(name string, num int32, key, k Kind) *Field {
	return &Field{Name: name, Num: num, Kind: k, Card: Map, Key: key}
}
func (f *Field) msg(m *Message) *Field { f.Kind = KMessage; f.Msg = m; return f }

// NumLayouts: field number layouts used by the flat programs. "low" = 1.., "tags" = numbers around the 1/2/3-byte
// tag boundaries, in non-ascending declaration order.
var tagNums = []int32{16, 1, 15, 2047, 2048, 17, 2, 100, 127, 128, 3, 2049, 1000, 4, 5, 6, 7}

func num(layout string, i int) int32 {
	if layout == "tags" {
		return tagNums[i%len(tagNums)]
	}
	return int32(i + 1)
}

// ProgScalars: one singular field per scalar kind.
func ProgScalars(layout string) *Schema {
	root := &Message{Name: "RootS" + layout}
	for i, k := range ScalarKinds {
		root.Add(fld("f_"+k.String(), num(layout, i), k))
	}
	return &Schema{ID: "scalars-" + layout, Msgs: []*Message{root}, Root: root}
}

// ProgLists: one repeated field per scalar kind plus a repeated message.
func ProgLists(layout string) *Schema {
	item := &Message{Name: "LItem" + layout}
	item.Add(fld("a", 1, KInt32)).Add(fld("s", 2, KString))
	root := &Message{Name: "RootL" + layout}
	for i, k := range ScalarKinds {
		root.Add(rfld("r_"+k.String(), num(layout, i), k))
	}
	root.Add(rfld("r_msg", num(layout, len(ScalarKinds)), KMessage).msg(item))
	return &Schema{ID: "lists-" + layout, Msgs: []*Message{item, root}, Root: root}
}

// MapValueKinds: value kinds paired with every key kind.
var MapValueKinds = []Kind{KInt32, KSint64, KFixed32, KDouble, KBool, KString, KBytes, KEnum, KFloat, KUint64}

// ProgMaps: for one key kind, map<key, V> for V in MapValueKinds plus map<key, message>.
func ProgMaps(key Kind) *Schema {
	item := &Message{Name: "MItem_" + key.String()}
	item.Add(fld("a", 1, KInt32)).Add(fld("s", 2, KString))
	root := &Message{Name: "RootM_" + key.String()}
	for i, v := range MapValueKinds {
		root.Add(mfld(fmt.Sprintf("m_%s_%s", key, v), int32(i+1), key, v))
	}
	root.Add(mfld(fmt.Sprintf("m_%s_msg", key), int32(len(MapValueKinds)+1), key, KMessage).msg(item))
	return &Schema{ID: "maps-" + key.String(), Msgs: []*Message{item, root}, Root: root}
}

// ProgNested: nested / recursive messages, containers of messages, containers inside sub-messages, an empty message
// type and a nested DECLARATION (Sub2 is declared inside Sub1).
//
//	Root { Sub1 a=1; repeated Sub1 ra=2; map<string,Sub1> ma=3; map<int32,Sub1> mi=4; Rec r=5; int32 x=6; string tail=7; Empty e=8; }
//	Sub1 { int32 i=1; string s=2; Sub2 d=3; repeated int32 pl=4; repeated string sl=5; map<string,int32> sm=6; repeated sint64 zl=7; map<int64,string> im=8; }
//	Sub1.Sub2 { sint32 z=1; bytes b=2; Empty e=3; }
//	Rec  { int32 v=1; Rec next=2; repeated Rec kids=3; }
func ProgNested() *Schema {
	empty := &Message{Name: "Empty"}
	sub1 := &Message{Name: "Sub1"}
	sub2 := &Message{Name: "Sub2", Parent: sub1}
	rec := &Message{Name: "Rec"}
	root := &Message{Name: "RootN"}
	sub2.Add(fld("z", 1, KSint32)).Add(fld("b", 2, KBytes)).Add(fld("e", 3, KMessage).msg(empty))
	sub1.Add(fld("i", 1, KInt32)).Add(fld("s", 2, KString)).Add(fld("d", 3, KMessage).msg(sub2)).
		Add(rfld("pl", 4, KInt32)).Add(rfld("sl", 5, KString)).Add(mfld("sm", 6, KString, KInt32)).
		Add(rfld("zl", 7, KSint64)).Add(mfld("im", 8, KInt64, KString))
	rec.Add(fld("v", 1, KInt32)).Add(fld("next", 2, KMessage).msg(rec)).Add(rfld("kids", 3, KMessage).msg(rec))
	root.Add(fld("a", 1, KMessage).msg(sub1)).Add(rfld("ra", 2, KMessage).msg(sub1)).
		Add(mfld("ma", 3, KString, KMessage).msg(sub1)).Add(mfld("mi", 4, KInt32, KMessage).msg(sub1)).
		Add(fld("r", 5, KMessage).msg(rec)).Add(fld("x", 6, KInt32)).Add(fld("tail", 7, KString)).Add(fld("e", 8, KMessage).msg(empty))
	return &Schema{ID: "nested", Msgs: []*Message{empty, sub1, sub2, rec, root}, Root: root}
}

// ProgBigID: a message whose only fields have large numbers (dynamicgo keeps a dense slice indexed by field
// number, so the largest number decides the memory a descriptor needs: 8 bytes per number).
func ProgBigID(max int32) *Schema {
	root := &Message{Name: fmt.Sprintf("RootB%d", max)}
	root.Add(fld("lo", 1, KInt32)).Add(fld("hi_s", max, KString)).Add(rfld("hi_l", max-1, KSint32)).Add(mfld(fmt.Sprintf("hi_m%d", max), max-2, KString, KInt32))
	return &Schema{ID: fmt.Sprintf("bigid-%d", max), Msgs: []*Message{root}, Root: root}
}

// ProgWide: more children than a machine word has bits: 70 singular fields (int32, every 7th a string), a packed
// and an unpacked list and two maps that the message family fills with 70 elements each.
func ProgWide() *Schema {
	root := &Message{Name: "RootWide"}
	for i := 1; i <= 70; i++ {
		k := KInt32
		if i%7 == 0 {
			k = KString
		}
		root.Add(fld(fmt.Sprintf("w%d", i), int32(i), k))
	}
	root.Add(rfld("wl", 71, KInt32)).Add(rfld("ws", 72, KString)).Add(mfld("wm", 73, KInt32, KInt32)).Add(mfld("wms", 74, KString, KInt32))
	return &Schema{ID: "wide", Msgs: []*Message{root}, Root: root}
}

// ProgHigh: a recursive message whose message-typed, repeated and map fields have numbers on both sides of the
// machine-word edges (63/64, 255/256), so that an inner container can be directly followed on the wire by the
// enclosing message's field of the same number.
//
//	RootH { int32 lo=1; NodeH n=2; }
//	NodeH { int32 v=1; string s=2; NodeH m63=63; NodeH m64=64; repeated NodeH kids=70; NodeH m255=255; map<string,NodeH> km=300; }
func ProgHigh() *Schema {
	node := &Message{Name: "NodeH"}
	root := &Message{Name: "RootH"}
	node.Add(fld("v", 1, KInt32)).Add(fld("s", 2, KString)).Add(fld("m63", 63, KMessage).msg(node)).Add(fld("m64", 64, KMessage).msg(node)).
		Add(rfld("kids", 70, KMessage).msg(node)).Add(fld("m255", 255, KMessage).msg(node)).Add(mfld("km", 300, KString, KMessage).msg(node))
	root.Add(fld("lo", 1, KInt32)).Add(fld("n", 2, KMessage).msg(node))
	return &Schema{ID: "high", Msgs: []*Message{node, root}, Root: root}
}

// ProgSameName: two DIFFERENT message types with one simple name, declared inside two other messages and both
// reachable from the root (a per-name descriptor cache would hand one of them the other's fields).
//
//	RootQ { Order order=1; Refund refund=2; }
//	Order { Item item=1; repeated Item items=2; int32 n=3; }   Order.Item  { string sku=1; int32 qty=2; }
//	Refund { Item item=1; map<string,Item> m=2; }              Refund.Item { string reason=1; sint64 amount=2; double d=3; }
func ProgSameName() *Schema {
	order := &Message{Name: "Order"}
	refund := &Message{Name: "Refund"}
	oi := &Message{Name: "Item", Parent: order}
	ri := &Message{Name: "Item", Parent: refund}
	root := &Message{Name: "RootQ"}
	oi.Add(fld("sku", 1, KString)).Add(fld("qty", 2, KInt32))
	ri.Add(fld("reason", 1, KString)).Add(fld("amount", 2, KSint64)).Add(fld("d", 3, KDouble))
	order.Add(fld("item", 1, KMessage).msg(oi)).Add(rfld("items", 2, KMessage).msg(oi)).Add(fld("n", 3, KInt32))
	refund.Add(fld("item", 1, KMessage).msg(ri)).Add(mfld("m", 2, KString, KMessage).msg(ri))
	root.Add(fld("order", 1, KMessage).msg(order)).Add(fld("refund", 2, KMessage).msg(refund))
	return &Schema{ID: "samename", Msgs: []*Message{order, oi, refund, ri, root}, Root: root}
}

// ProgCongruent: length-delimited fields whose numbers are congruent mod 16 and need tags of the same length
// (17/33/49, 18/34, 19/35): the FIRST byte of their tags is equal.
//
//	RootC { int32 lo=1; repeated string rs=17; map<string,int32> m=18; repeated SubC rm=19; string s=33; bytes b=34; SubC sm=35; repeated string rs2=49; }
func ProgCongruent() *Schema {
	sub := &Message{Name: "SubC"}
	sub.Add(fld("a", 1, KInt32))
	root := &Message{Name: "RootC"}
	root.Add(fld("lo", 1, KInt32)).Add(rfld("rs", 17, KString)).Add(mfld("m", 18, KString, KInt32)).Add(rfld("rm", 19, KMessage).msg(sub)).
		Add(fld("s", 33, KString)).Add(fld("b", 34, KBytes)).Add(fld("sm", 35, KMessage).msg(sub)).Add(rfld("rs2", 49, KString))
	return &Schema{ID: "congruent", Msgs: []*Message{sub, root}, Root: root}
}

// ---------- message builders

// Named value for enumeration.
type NV struct {
	Name string
	V    *Val
}

// ListVal builds a list of n position-distinct elements for repeated field f.
func ListVal(f *Field, n int) *Val {
	l := ListOf(f)
	for i := 0; i < n; i++ {
		if f.Kind == KMessage {
			l.L = append(l.L, ItemVal(f.Msg, i))
		} else {
			l.L = append(l.L, ElemD(f.Kind, i))
		}
	}
	return l
}

// MapVal builds a map of n position-distinct entries for map field f.
func MapVal(f *Field, n int) *Val {
	m := MapOf(f)
	if f.Key == KBool && n > 2 {
		n = 2
	}
	for i := 0; i < n; i++ {
		var v *Val
		if f.Kind == KMessage {
			v = ItemVal(f.Msg, i)
		} else {
			v = ElemD(f.Kind, i)
		}
		m.Put(KeyElem(f.Key, i), v)
	}
	return m
}

// ItemVal builds the i-th distinct value of a small scalar-only message (all fields set from Elem; i==2 -> empty message).
func ItemVal(m *Message, i int) *Val {
	v := MsgVal(m)
	if i%6 == 2 {
		return v
	}
	for j, f := range m.Fields {
		if f.Card != Single || f.Kind == KMessage {
			continue
		}
		v.Set(f, Elem(f.Kind, i+j))
	}
	return v
}
