package pbref

import (
	"bytes"
	"fmt"
	"math"
	"sort"
	"strings"

	"github.com/jhump/protoreflect/dynamic"
	gpw "google.golang.org/protobuf/encoding/protowire"
	"google.golang.org/protobuf/proto"
	"google.golang.org/protobuf/reflect/protoreflect"
	"google.golang.org/protobuf/types/dynamicpb"
)

// Val is the model of a protobuf value.
//
//	scalar : Card==Single, Kind!=KMessage; U holds the bits (ints sign-extended to 64 bit, bool 0/1, enum number,
//	         float32/float64 IEEE bits), B holds string/bytes payload.
//	message: Card==Single, Kind==KMessage; Fs = present fields in ascending field number; Unk = unknown bytes.
//	list   : Card==Repeated; L = elements (Kind = element kind, Msg = element message).
//	map    : Card==Map; MK/MV = entries (Key = key kind; Kind/Msg = value kind), kept sorted by SortMap.
type Val struct {
	Kind Kind
	Card Card
	Key  Kind
	Msg  *Message
	U    uint64
	B    []byte
	Fs   []FV
	L    []*Val
	MK   []*Val
	MV   []*Val
	Unk  []byte
}

type FV struct {
	F *Field
	V *Val
}

// --- constructors

func Scalar(k Kind, u uint64) *Val { return &Val{Kind: k, U: norm(k, u)} }
func Int(k Kind, v int64) *Val     { return &Val{Kind: k, U: norm(k, uint64(v))} }
func Bool(b bool) *Val {
	if b {
		return &Val{Kind: KBool, U: 1}
	}
	return &Val{Kind: KBool}
}
func Str(s string) *Val      { return &Val{Kind: KString, B: []byte(s)} }
func Bytes(b []byte) *Val    { return &Val{Kind: KBytes, B: append([]byte{}, b...)} }
func F32(f float32) *Val     { return &Val{Kind: KFloat, U: uint64(math.Float32bits(f))} }
func F64(f float64) *Val     { return &Val{Kind: KDouble, U: math.Float64bits(f)} }
func MsgVal(m *Message) *Val { return &Val{Kind: KMessage, Msg: m} }
func ListOf(f *Field, elems ...*Val) *Val {
	return &Val{Kind: f.Kind, Card: Repeated, Msg: f.Msg, L: elems}
}
func MapOf(f *Field) *Val { return &Val{Kind: f.Kind, Card: Map, Key: f.Key, Msg: f.Msg} }

// norm brings U to the canonical bit pattern of the kind (32-bit signed kinds sign-extended, unsigned 32 zero-extended).
func norm(k Kind, u uint64) uint64 {
	switch k {
	case KInt32, KSint32, KSfixed32, KEnum:
		return uint64(int64(int32(u)))
	case KUint32, KFixed32, KFloat:
		return uint64(uint32(u))
	case KBool:
		if u != 0 {
			return 1
		}
		return 0
	}
	return u
}

// Set sets (or replaces) field f of a message value, keeping Fs sorted. v==nil removes the field.
func (m *Val) Set(f *Field, v *Val) *Val {
	for i := range m.Fs {
		if m.Fs[i].F.Num == f.Num {
			if v == nil {
				m.Fs = append(m.Fs[:i:i], m.Fs[i+1:]...)
			} else {
				m.Fs[i].V = v
			}
			return m
		}
	}
	if v == nil {
		return m
	}
	m.Fs = append(m.Fs, FV{f, v})
	sort.SliceStable(m.Fs, func(i, j int) bool { return m.Fs[i].F.Num < m.Fs[j].F.Num })
	return m
}

func (m *Val) Get(num int32) *Val {
	for _, fv := range m.Fs {
		if fv.F.Num == num {
			return fv.V
		}
	}
	return nil
}

// Put adds or replaces a map entry and keeps the canonical order.
func (m *Val) Put(k, v *Val) *Val {
	for i := range m.MK {
		if Equal(m.MK[i], k) {
			m.MV[i] = v
			return m
		}
	}
	m.MK = append(m.MK, k)
	m.MV = append(m.MV, v)
	m.SortMap()
	return m
}

func (m *Val) Lookup(k *Val) (int, *Val) {
	for i := range m.MK {
		if Equal(m.MK[i], k) {
			return i, m.MV[i]
		}
	}
	return -1, nil
}

// SortMap orders entries the way the deterministic reference encoder does: bool false<true, ints by value
// (signed kinds as signed), strings lexicographically.
func (m *Val) SortMap() {
	idx := make([]int, len(m.MK))
	for i := range idx {
		idx[i] = i
	}
	less := func(a, b *Val) bool {
		switch {
		case m.Key == KString:
			return bytes.Compare(a.B, b.B) < 0
		case m.Key.IsUnsigned() || m.Key == KBool:
			return a.U < b.U
		default:
			return int64(a.U) < int64(b.U)
		}
	}
	sort.SliceStable(idx, func(i, j int) bool { return less(m.MK[idx[i]], m.MK[idx[j]]) })
	mk, mv := make([]*Val, len(idx)), make([]*Val, len(idx))
	for i, j := range idx {
		mk[i], mv[i] = m.MK[j], m.MV[j]
	}
	m.MK, m.MV = mk, mv
}

// IsDefault: scalar equal to the proto3 default (such singular fields are absent on the wire).
func (v *Val) IsDefault() bool {
	if v.Card != Single || v.Kind == KMessage {
		return false
	}
	if v.Kind == KString || v.Kind == KBytes {
		return len(v.B) == 0
	}
	return v.U == 0
}

func Clone(v *Val) *Val {
	if v == nil {
		return nil
	}
	c := *v
	c.B = append([]byte(nil), v.B...)
	c.Unk = append([]byte(nil), v.Unk...)
	c.Fs = make([]FV, len(v.Fs))
	for i, fv := range v.Fs {
		c.Fs[i] = FV{fv.F, Clone(fv.V)}
	}
	c.L = make([]*Val, len(v.L))
	for i, e := range v.L {
		c.L[i] = Clone(e)
	}
	c.MK = make([]*Val, len(v.MK))
	c.MV = make([]*Val, len(v.MV))
	for i := range v.MK {
		c.MK[i], c.MV[i] = Clone(v.MK[i]), Clone(v.MV[i])
	}
	return &c
}

// Key is a canonical text of the value (bit patterns for floats, so NaN == NaN and -0 != +0).
func (v *Val) String() string {
	var b strings.Builder
	v.write(&b)
	return b.String()
}

func (v *Val) write(b *strings.Builder) {
	if v == nil {
		b.WriteString("<nil>")
		return
	}
	switch {
	case v.Card == Repeated:
		b.WriteString("[")
		for i, e := range v.L {
			if i > 0 {
				b.WriteString(",")
			}
			e.write(b)
		}
		b.WriteString("]")
	case v.Card == Map:
		b.WriteString("{")
		for i := range v.MK {
			if i > 0 {
				b.WriteString(",")
			}
			v.MK[i].write(b)
			b.WriteString(":")
			v.MV[i].write(b)
		}
		b.WriteString("}")
	case v.Kind == KMessage:
		b.WriteString("<")
		for i, fv := range v.Fs {
			if i > 0 {
				b.WriteString(" ")
			}
			fmt.Fprintf(b, "%d=", fv.F.Num)
			fv.V.write(b)
		}
		if len(v.Unk) > 0 {
			fmt.Fprintf(b, " ?unknown=%x", v.Unk)
		}
		b.WriteString(">")
	case v.Kind == KString:
		fmt.Fprintf(b, "%q", v.B)
	case v.Kind == KBytes:
		fmt.Fprintf(b, "x%x", v.B)
	case v.Kind == KFloat:
		fmt.Fprintf(b, "f32:%08x", uint32(v.U))
	case v.Kind == KDouble:
		fmt.Fprintf(b, "f64:%016x", v.U)
	case v.Kind.IsUnsigned() || v.Kind == KBool:
		fmt.Fprintf(b, "%s:%d", v.Kind, v.U)
	default:
		fmt.Fprintf(b, "%s:%d", v.Kind, int64(v.U))
	}
}

// Equal: structural equality on canonical forms (lists ordered, maps as sets of entries, floats by bits).
func Equal(a, b *Val) bool {
	if a == nil || b == nil {
		return a == b
	}
	// maps are kept sorted by every constructor of this package (Put, FromRef, Normalize)
	return a.String() == b.String()
}

// --- conversion to / from the reference implementation (protobuf-go dynamicpb)

func scalarToRef(k Kind, v *Val) protoreflect.Value {
	switch k {
	case KBool:
		return protoreflect.ValueOfBool(v.U != 0)
	case KInt32, KSint32, KSfixed32:
		return protoreflect.ValueOfInt32(int32(v.U))
	case KEnum:
		return protoreflect.ValueOfEnum(protoreflect.EnumNumber(int32(v.U)))
	case KUint32, KFixed32:
		return protoreflect.ValueOfUint32(uint32(v.U))
	case KInt64, KSint64, KSfixed64:
		return protoreflect.ValueOfInt64(int64(v.U))
	case KUint64, KFixed64:
		return protoreflect.ValueOfUint64(v.U)
	case KFloat:
		return protoreflect.ValueOfFloat32(math.Float32frombits(uint32(v.U)))
	case KDouble:
		return protoreflect.ValueOfFloat64(math.Float64frombits(v.U))
	case KString:
		return protoreflect.ValueOfString(string(v.B))
	case KBytes:
		return protoreflect.ValueOfBytes(append([]byte{}, v.B...))
	}
	panic("pbref: scalarToRef kind " + k.String())
}

func scalarFromRef(k Kind, x protoreflect.Value) *Val {
	switch k {
	case KBool:
		return Bool(x.Bool())
	case KInt32, KSint32, KSfixed32, KInt64, KSint64, KSfixed64:
		return Int(k, x.Int())
	case KEnum:
		return Int(k, int64(x.Enum()))
	case KUint32, KFixed32, KUint64, KFixed64:
		return Scalar(k, x.Uint())
	case KFloat:
		return Scalar(k, uint64(math.Float32bits(float32(x.Float()))))
	case KDouble:
		return Scalar(k, math.Float64bits(x.Float()))
	case KString:
		return Str(x.String())
	case KBytes:
		return Bytes(x.Bytes())
	}
	panic("pbref: scalarFromRef kind " + k.String())
}

// ToRef builds the reference message for model value v (a message value of s).
func (s *Schema) ToRef(v *Val) *dynamicpb.Message {
	md := s.RefMsg(v.Msg)
	m := dynamicpb.NewMessage(md)
	for _, fv := range v.Fs {
		fd := md.Fields().ByNumber(protoreflect.FieldNumber(fv.F.Num))
		if fd == nil {
			panic(fmt.Sprintf("pbref: field %d not in reference descriptor of %s", fv.F.Num, v.Msg.Name))
		}
		switch fv.F.Card {
		case Repeated:
			l := m.Mutable(fd).List()
			for _, e := range fv.V.L {
				if fv.F.Kind == KMessage {
					l.Append(protoreflect.ValueOfMessage(s.ToRef(e)))
				} else {
					l.Append(scalarToRef(fv.F.Kind, e))
				}
			}
		case Map:
			mp := m.Mutable(fd).Map()
			for i := range fv.V.MK {
				k := scalarToRef(fv.F.Key, fv.V.MK[i]).MapKey()
				if fv.F.Kind == KMessage {
					mp.Set(k, protoreflect.ValueOfMessage(s.ToRef(fv.V.MV[i])))
				} else {
					mp.Set(k, scalarToRef(fv.F.Kind, fv.V.MV[i]))
				}
			}
		default:
			if fv.F.Kind == KMessage {
				m.Set(fd, protoreflect.ValueOfMessage(s.ToRef(fv.V)))
			} else {
				m.Set(fd, scalarToRef(fv.F.Kind, fv.V))
			}
		}
	}
	if len(v.Unk) > 0 {
		m.SetUnknown(protoreflect.RawFields(v.Unk))
	}
	return m
}

// FromRef reads a reference message back into the model (present fields only; proto3 implicit presence, so
// default-valued singular scalars, empty lists and empty maps are absent).
func (s *Schema) FromRef(m protoreflect.Message, msg *Message) *Val {
	out := MsgVal(msg)
	md := m.Descriptor()
	for _, f := range msg.SortedFields() {
		fd := md.Fields().ByNumber(protoreflect.FieldNumber(f.Num))
		if fd == nil || !m.Has(fd) {
			continue
		}
		x := m.Get(fd)
		switch f.Card {
		case Repeated:
			lv := ListOf(f)
			l := x.List()
			for i := 0; i < l.Len(); i++ {
				if f.Kind == KMessage {
					lv.L = append(lv.L, s.FromRef(l.Get(i).Message(), f.Msg))
				} else {
					lv.L = append(lv.L, scalarFromRef(f.Kind, l.Get(i)))
				}
			}
			out.Fs = append(out.Fs, FV{f, lv})
		case Map:
			mv := MapOf(f)
			x.Map().Range(func(k protoreflect.MapKey, v protoreflect.Value) bool {
				mv.MK = append(mv.MK, scalarFromRef(f.Key, k.Value()))
				if f.Kind == KMessage {
					mv.MV = append(mv.MV, s.FromRef(v.Message(), f.Msg))
				} else {
					mv.MV = append(mv.MV, scalarFromRef(f.Kind, v))
				}
				return true
			})
			mv.SortMap()
			out.Fs = append(out.Fs, FV{f, mv})
		default:
			if f.Kind == KMessage {
				out.Fs = append(out.Fs, FV{f, s.FromRef(x.Message(), f.Msg)})
			} else {
				out.Fs = append(out.Fs, FV{f, scalarFromRef(f.Kind, x)})
			}
		}
	}
	if u := m.GetUnknown(); len(u) > 0 {
		out.Unk = append([]byte{}, u...)
	}
	return out
}

// Normalize returns the value as the wire can carry it (what FromRef(ToRef(v)) gives): default singular scalars,
// empty lists and empty maps dropped, maps sorted.
func Normalize(v *Val) *Val {
	c := Clone(v)
	var walk func(v *Val)
	walk = func(v *Val) {
		switch {
		case v.Card == Repeated:
			for _, e := range v.L {
				walk(e)
			}
		case v.Card == Map:
			for _, e := range v.MV {
				walk(e)
			}
			v.SortMap()
		case v.Kind == KMessage:
			var fs []FV
			for _, fv := range v.Fs {
				walk(fv.V)
				if fv.V.Card == Single && fv.V.Kind != KMessage && fv.V.IsDefault() {
					continue
				}
				if fv.V.Card == Repeated && len(fv.V.L) == 0 || fv.V.Card == Map && len(fv.V.MK) == 0 {
					continue
				}
				fs = append(fs, fv)
			}
			v.Fs = fs
		}
	}
	walk(c)
	return c
}

// Encode = the reference implementation's deterministic encoding of v.
func (s *Schema) Encode(v *Val) []byte {
	b, err := proto.MarshalOptions{Deterministic: true}.Marshal(s.ToRef(v))
	if err != nil {
		panic(fmt.Sprintf("pbref: reference marshal failed: %v (%s)", err, v))
	}
	if b == nil {
		b = []byte{}
	}
	return b
}

// Decode = the reference implementation's decoding of b as message msg (error if it rejects the bytes).
func (s *Schema) Decode(b []byte, msg *Message) (*Val, error) {
	m := dynamicpb.NewMessage(s.RefMsg(msg))
	if err := (proto.UnmarshalOptions{}).Unmarshal(b, m); err != nil {
		return nil, err
	}
	return s.FromRef(m, msg), nil
}

// JhumpAgrees is the second opinion: jhump dynamic.Message must accept the reference bytes and re-encode them
// (deterministically) to the same bytes. Used in self checks only.
func (s *Schema) JhumpAgrees(v *Val) error {
	b := s.Encode(v)
	dm := dynamic.NewMessage(s.JhumpMsg(v.Msg))
	if err := dm.Unmarshal(b); err != nil {
		return fmt.Errorf("jhump dynamic.Message rejects reference bytes %x of %s: %v", b, v, err)
	}
	b2, err := dm.MarshalDeterministic()
	if err != nil {
		return err
	}
	if !bytes.Equal(b, b2) {
		// the only tolerated difference: jhump (v1.8.2) treats a singular float/double -0 as the default value
		// and drops it, protobuf-go (the reference) keeps it.
		back2, err := s.Decode(b2, v.Msg)
		if err != nil || !Equal(scrubNegZero(back2), scrubNegZero(Normalize(v))) {
			return fmt.Errorf("jhump re-encoding differs: %x vs %x for %s", b2, b, v)
		}
	}
	back, err := s.Decode(b, v.Msg)
	if err != nil {
		return err
	}
	if !Equal(back, Normalize(v)) {
		return fmt.Errorf("reference decode(encode(v)) != normalize(v): %s vs %s", back, Normalize(v))
	}
	return nil
}

func scrubNegZero(v *Val) *Val {
	c := Clone(v)
	var walk func(v *Val)
	walk = func(v *Val) {
		if v.Card == Single && v.Kind == KMessage {
			var fs []FV
			for _, fv := range v.Fs {
				if fv.V.Card == Single && (fv.V.Kind == KFloat && fv.V.U == 0x80000000 || fv.V.Kind == KDouble && fv.V.U == 1<<63) {
					continue
				}
				walk(fv.V)
				fs = append(fs, fv)
			}
			v.Fs = fs
		}
		for _, e := range v.L {
			walk(e)
		}
		for _, e := range v.MV {
			walk(e)
		}
	}
	walk(c)
	return c
}

// Short is String with long runs of one character collapsed ("L"x16380), for messages meant for humans.
func (v *Val) Short() string {
	s := v.String()
	if len(s) < 200 {
		return s
	}
	var b strings.Builder
	i := 0
	for i < len(s) {
		j := i
		for j < len(s) && s[j] == s[i] {
			j++
		}
		if j-i > 12 {
			fmt.Fprintf(&b, "%c..x%d", s[i], j-i)
		} else {
			b.WriteString(s[i:j])
		}
		i = j
	}
	out := b.String()
	if len(out) > 700 {
		out = out[:700] + "..."
	}
	return out
}

// DescendingTop re-orders the records of an encoded message so that the fields come in DESCENDING number order
// (the records of one field stay together and keep their relative order): as legal an encoding of the same message
// as the ascending one (writers that range over a Go map, oneof members numbered below plain fields).
func DescendingTop(b []byte) []byte {
	type rec struct {
		num gpw.Number
		raw []byte
	}
	var recs []rec
	for len(b) > 0 {
		num, _, n := gpw.ConsumeField(b)
		if n < 0 {
			panic("pbref: DescendingTop on malformed bytes")
		}
		recs = append(recs, rec{num, b[:n]})
		b = b[n:]
	}
	sort.SliceStable(recs, func(i, j int) bool { return recs[i].num > recs[j].num })
	out := []byte{}
	for _, r := range recs {
		out = append(out, r.raw...)
	}
	return out
}
