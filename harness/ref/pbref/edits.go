package pbref

import (
	"fmt"
	"strings"
)

// Edit model for history checks: the reference semantics of set / unset / set-many on a message tree.

type OpKind int8

const (
	OpSet OpKind = iota
	OpUnset
	OpSetMany
)

// Child of a SetMany: one step below the parent and the value to store there.
type ManyItem struct {
	Step Step
	Val  *Val
}

type Op struct {
	Kind   OpKind
	Path   []Step // OpSet/OpUnset: the target; OpSetMany: the parent node (empty = root)
	Val    *Val   // OpSet
	Many   []ManyItem
	ByName bool // address message fields by name instead of number
}

func (o Op) String() string {
	switch o.Kind {
	case OpSet:
		n := ""
		if o.ByName {
			n = ",by-name"
		}
		return fmt.Sprintf("Set(%s = %s%s)", PathString(o.Path), short(o.Val), n)
	case OpUnset:
		return fmt.Sprintf("Unset(%s)", PathString(o.Path))
	}
	var b strings.Builder
	for i, m := range o.Many {
		if i > 0 {
			b.WriteString(", ")
		}
		b.WriteString(m.Step.String() + " = " + short(m.Val))
	}
	return fmt.Sprintf("SetMany(at %s: %s)", PathString(o.Path), b.String())
}

func short(v *Val) string {
	s := v.String()
	if len(s) > 60 {
		return fmt.Sprintf("%s...(%d chars)", s[:40], len(s))
	}
	return s
}

// setChild stores val at one step below parent (in place). Returns whether something was there before.
// Lists: an index >= len appends (the library's documented "next index" insertion).
func setChild(parent *Val, s Step, val *Val) (existed bool, ok bool) {
	switch s.K {
	case SField:
		if parent.Card != Single || parent.Kind != KMessage {
			return false, false
		}
		existed = parent.Get(s.F.Num) != nil
		parent.Set(s.F, val)
		return existed, true
	case SIndex:
		if parent.Card != Repeated || s.I < 0 {
			return false, false
		}
		if s.I < len(parent.L) {
			parent.L[s.I] = val
			return true, true
		}
		parent.L = append(parent.L, val)
		return false, true
	case SKey:
		if parent.Card != Map {
			return false, false
		}
		i, _ := parent.Lookup(s.Key)
		parent.Put(s.Key, val)
		return i >= 0, true
	}
	return false, false
}

// Apply returns the model after the edit (the input is not modified), whether the target existed (OpSet) and
// whether the edit is applicable at all (its parent exists and fits).
// Inserting below an ABSENT container field creates it (a list/map field that is absent is the empty container).
func Apply(root *Val, op Op) (out *Val, existed bool, ok bool) {
	out = Clone(root)
	switch op.Kind {
	case OpSet:
		if len(op.Path) == 0 {
			return out, false, false
		}
		parent := resolveCreate(out, op.Path[:len(op.Path)-1])
		if parent == nil {
			return out, false, false
		}
		existed, ok = setChild(parent, op.Path[len(op.Path)-1], Clone(op.Val))
		return out, existed, ok
	case OpUnset:
		if len(op.Path) == 0 {
			return out, false, false
		}
		parent := Resolve(out, op.Path[:len(op.Path)-1])
		if parent == nil {
			return out, false, true // nothing to remove
		}
		s := op.Path[len(op.Path)-1]
		switch s.K {
		case SField:
			if parent.Card != Single || parent.Kind != KMessage {
				return out, false, false
			}
			existed = parent.Get(s.F.Num) != nil
			parent.Set(s.F, nil)
		case SIndex:
			if parent.Card != Repeated {
				return out, false, false
			}
			if s.I >= 0 && s.I < len(parent.L) {
				existed = true
				parent.L = append(parent.L[:s.I:s.I], parent.L[s.I+1:]...)
			}
		case SKey:
			if parent.Card != Map {
				return out, false, false
			}
			if i, _ := parent.Lookup(s.Key); i >= 0 {
				existed = true
				parent.MK = append(parent.MK[:i:i], parent.MK[i+1:]...)
				parent.MV = append(parent.MV[:i:i], parent.MV[i+1:]...)
			}
		}
		return out, existed, true
	case OpSetMany:
		parent := resolveCreate(out, op.Path)
		if parent == nil {
			return out, false, false
		}
		for _, m := range op.Many {
			if _, ok := setChild(parent, m.Step, Clone(m.Val)); !ok {
				return out, false, false
			}
		}
		return out, true, true
	}
	return out, false, false
}

// resolveCreate follows p; an absent list/map FIELD on the way is created empty (it is indistinguishable from an
// empty one on the wire). Absent messages are not created.
func resolveCreate(root *Val, p []Step) *Val {
	v := root
	for _, s := range p {
		c := Child(v, s)
		if c == nil {
			if s.K == SField && v.Card == Single && v.Kind == KMessage && s.F.Card != Single {
				if s.F.Card == Repeated {
					c = ListOf(s.F)
				} else {
					c = MapOf(s.F)
				}
				v.Set(s.F, c)
			} else {
				return nil
			}
		}
		v = c
	}
	return v
}
