package pbref

import (
	"context"
	"fmt"

	dproto "github.com/cloudwego/dynamicgo/proto"
	"github.com/jhump/protoreflect/desc"
	"github.com/jhump/protoreflect/desc/protoparse"
	"google.golang.org/protobuf/reflect/protodesc"
	"google.golang.org/protobuf/reflect/protoreflect"
	"google.golang.org/protobuf/reflect/protoregistry"
)

type refDescs struct {
	jfile *desc.FileDescriptor
	file  protoreflect.FileDescriptor
}

var (
	refCache = map[string]*refDescs{}
	dynCache = map[string]*dproto.TypeDescriptor{}
)

// refs parses the schema text with jhump protoparse (in-memory accessor) and converts the resulting
// FileDescriptorProto into protobuf-go descriptors. No dynamicgo code is involved.
func (s *Schema) refs() (*refDescs, error) {
	if r := refCache[s.ID]; r != nil {
		return r, nil
	}
	p := protoparse.Parser{Accessor: protoparse.FileContentsFromMap(map[string]string{FilePath: s.Source()})}
	fds, err := p.ParseFiles(FilePath)
	if err != nil {
		return nil, fmt.Errorf("reference parse of schema %s: %v\n%s", s.ID, err, s.Source())
	}
	fd, err := protodesc.NewFile(fds[0].AsFileDescriptorProto(), &protoregistry.Files{})
	if err != nil {
		return nil, fmt.Errorf("protodesc of schema %s: %v", s.ID, err)
	}
	r := &refDescs{jfile: fds[0], file: fd}
	refCache[s.ID] = r
	return r, nil
}

// RefMsg returns the protobuf-go descriptor of message m.
func (s *Schema) RefMsg(m *Message) protoreflect.MessageDescriptor {
	r, err := s.refs()
	if err != nil {
		panic(err)
	}
	var find func(ms protoreflect.MessageDescriptors, m *Message) protoreflect.MessageDescriptor
	find = func(ms protoreflect.MessageDescriptors, m *Message) protoreflect.MessageDescriptor {
		if m.Parent != nil {
			p := find(ms, m.Parent)
			return p.Messages().ByName(protoreflect.Name(m.Name))
		}
		return ms.ByName(protoreflect.Name(m.Name))
	}
	md := find(r.file.Messages(), m)
	if md == nil {
		panic("pbref: message " + m.Name + " not in reference descriptor")
	}
	return md
}

// JhumpMsg returns the jhump descriptor of message m (for dynamic.Message, the second opinion).
func (s *Schema) JhumpMsg(m *Message) *desc.MessageDescriptor {
	r, err := s.refs()
	if err != nil {
		panic(err)
	}
	md := r.jfile.FindMessage(Pkg + "." + m.FullName())
	if md == nil {
		panic("pbref: message " + m.Name + " not in jhump descriptor")
	}
	return md
}

// CheckRef parses the schema with the reference only (used by SelfCheck in the parent process).
func (s *Schema) CheckRef() error {
	if err := s.Validate(); err != nil {
		return err
	}
	_, err := s.refs()
	return err
}

// Dyn parses the schema text with dynamicgo (CODE UNDER TEST: call only inside Case.Run / worker enumeration)
// and returns the descriptor of the root message.
func (s *Schema) Dyn() (*dproto.TypeDescriptor, error) {
	if d := dynCache[s.ID]; d != nil {
		return d, nil
	}
	svc, err := dproto.NewDescritorFromContent(context.Background(), FilePath, s.Source(), map[string]string{})
	if err != nil {
		return nil, fmt.Errorf("dynamicgo parse of schema %s: %v", s.ID, err)
	}
	m := svc.LookupMethodByName("M")
	if m == nil || m.Input() == nil {
		return nil, fmt.Errorf("dynamicgo parse of schema %s: method M missing", s.ID)
	}
	dynCache[s.ID] = m.Input()
	return m.Input(), nil
}

// DynField walks the dynamicgo root descriptor to the type descriptor of a field of (possibly nested) message m.
// path = field numbers from the root message down to the message holding the field.
func DynFieldOf(root *dproto.TypeDescriptor, nums ...int32) *dproto.TypeDescriptor {
	d := root
	for _, n := range nums {
		var md *dproto.MessageDescriptor
		switch {
		case d.IsList() || d.IsMap():
			md = d.Elem().Message()
		default:
			md = d.Message()
		}
		f := md.ByNumber(dproto.FieldNumber(n))
		if f == nil {
			return nil
		}
		d = f.Type()
	}
	return d
}
