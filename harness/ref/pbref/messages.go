package pbref

import (
	"bytes"
	"fmt"
	"strings"
)

// StdKeyKinds: map key kinds of the standard programs (bool keys are outside the quantifiers of C07/C10).
var StdKeyKinds = []Kind{KInt32, KInt64, KUint32, KUint64, KSint32, KSint64, KFixed32, KFixed64, KSfixed32, KSfixed64, KString}

var progCache = map[string][]*Schema{}

// StdPrograms: the program family shared by C07 and C10.
func StdPrograms(tier string) []*Schema {
	if p := progCache[tier]; p != nil {
		return p
	}
	ps := []*Schema{ProgScalars("low"), ProgScalars("tags"), ProgLists("low"), ProgLists("tags")}
	for _, k := range StdKeyKinds {
		ps = append(ps, ProgMaps(k))
	}
	// 2^29-1 in both tiers: field numbers >= 2^28 are the ones whose 5-byte tag does not fit an int32 once shifted
	ps = append(ps, ProgNested(), ProgWide(), ProgSameName(), ProgCongruent(), ProgBigID(2048), ProgBigID(262144), ProgBigID(1<<29-1))
	if tier == "thorough" {
		ps = append(ps, ProgBigID(1<<25), ProgBigID(1<<28))
	}
	progCache[tier] = ps
	return ps
}

var msgCache = map[string][]NV{}

// StdMessages: the message family of a standard program (model values; deduplicated; simplest first).
func StdMessages(s *Schema, tier string) []NV {
	key := s.ID + "/" + tier
	if m := msgCache[key]; m != nil {
		return m
	}
	var out []NV
	seen := map[string]bool{}
	add := func(name string, v *Val) {
		k := v.String()
		if seen[k] {
			return
		}
		seen[k] = true
		out = append(out, NV{Name: name, V: v})
	}
	root := s.Root
	maxN := 3
	if tier == "thorough" {
		maxN = 6
	}
	val := func(f *Field, i int) *Val {
		switch {
		case f.Card == Repeated:
			return ListVal(f, 2+i%2)
		case f.Card == Map:
			return MapVal(f, 2+i%2)
		case f.Kind == KMessage:
			return ItemVal(f.Msg, i)
		}
		return Elem(f.Kind, i)
	}
	switch {
	case s.ID == "nested":
		for _, nv := range nestedMessages(s) {
			add(nv.Name, nv.V)
		}
	case s.ID == "wide":
		all := MsgVal(root)
		for i, f := range root.Fields {
			switch {
			case f.Card == Single && f.Kind == KString:
				all.Set(f, Str(fmt.Sprintf("w%d", i)))
			case f.Card == Single:
				all.Set(f, Int(f.Kind, int64(i*131-300)))
			case f.Card == Repeated:
				l := ListOf(f)
				for j := 0; j < 70; j++ {
					if f.Kind == KString {
						l.L = append(l.L, Str(fmt.Sprintf("e%d", j)))
					} else {
						l.L = append(l.L, Int(f.Kind, int64(j*j*97-50)))
					}
				}
				all.Set(f, l)
				add("wide-list", MsgVal(root).Set(f, l))
			default:
				m := MapOf(f)
				for j := 0; j < 70; j++ {
					if f.Key == KString {
						m.Put(Str(fmt.Sprintf("key%02d", j)), Int(f.Kind, int64(j)))
					} else {
						m.Put(Int(f.Key, int64(j*13-100)), Int(f.Kind, int64(j)))
					}
				}
				all.Set(f, m)
				add("wide-map", MsgVal(root).Set(f, m))
			}
		}
		add("wide-all", all)
	case s.ID == "congruent":
		f := func(n string) *Field { return root.ByName(n) }
		strs := func(fd *Field, ss ...string) *Val {
			l := ListOf(fd)
			for _, x := range ss {
				l.L = append(l.L, Str(x))
			}
			return l
		}
		sub := func(a int64) *Val { return MsgVal(f("sm").Msg).Set(f("sm").Msg.ByName("a"), Int(KInt32, a)) }
		rs := strs(f("rs"), "a", "b")
		m := MapOf(f("m")).Put(Str("k"), Int(KInt32, 1)).Put(Str("j"), Int(KInt32, 2))
		rm := ListOf(f("rm"), sub(1), sub(2))
		add("string-list-then-string", MsgVal(root).Set(f("rs"), rs).Set(f("s"), Str("hello")))
		add("map-then-bytes", MsgVal(root).Set(f("m"), m).Set(f("b"), Bytes([]byte{0x0a, 1, 'x', 0x10, 7})))
		add("message-list-then-message", MsgVal(root).Set(f("rm"), rm).Set(f("sm"), sub(3)))
		add("string-list-then-string-list", MsgVal(root).Set(f("rs"), rs).Set(f("rs2"), strs(f("rs2"), "c")))
		add("all", MsgVal(root).Set(f("lo"), Int(KInt32, 5)).Set(f("rs"), rs).Set(f("m"), m).Set(f("rm"), rm).Set(f("s"), Str("t")).
			Set(f("b"), Bytes([]byte{1})).Set(f("sm"), sub(4)).Set(f("rs2"), strs(f("rs2"), "d", "e")))
	case s.ID == "samename":
		order, refund := root.ByName("order"), root.ByName("refund")
		oi, ri := order.Msg.ByName("item"), refund.Msg.ByName("item")
		ois, rm := order.Msg.ByName("items"), refund.Msg.ByName("m")
		ov := MsgVal(order.Msg).Set(oi, ItemVal(oi.Msg, 0)).Set(ois, ListOf(ois, ItemVal(oi.Msg, 1), ItemVal(oi.Msg, 3))).Set(order.Msg.ByName("n"), Int(KInt32, 7))
		rv := MsgVal(refund.Msg).Set(ri, ItemVal(ri.Msg, 0)).Set(rm, MapOf(rm).Put(Str("k"), ItemVal(ri.Msg, 1)).Put(Str("j"), ItemVal(ri.Msg, 4)))
		add("order-only", MsgVal(root).Set(order, ov))
		add("refund-only", MsgVal(root).Set(refund, rv))
		add("both", MsgVal(root).Set(order, ov).Set(refund, rv))
	case strings.HasPrefix(s.ID, "bigid"):
		add("empty", MsgVal(root))
		all := MsgVal(root)
		for i, f := range root.Fields {
			add("single", MsgVal(root).Set(f, val(f, i)))
			all.Set(f, val(f, i))
		}
		add("all", all)
	default:
		add("empty", MsgVal(root))
		// single fields over their alphabets / sizes
		for _, f := range root.Fields {
			switch f.Card {
			case Single:
				for _, a := range Alphabet(f.Kind) {
					add("single", MsgVal(root).Set(f, a))
				}
			case Repeated:
				for n := 0; n <= maxN; n++ {
					add("list", MsgVal(root).Set(f, ListVal(f, n)))
				}
				if f.Kind != KMessage {
					add("list-alphabet", MsgVal(root).Set(f, ListOf(f, Alphabet(f.Kind)...)))
				}
			case Map:
				for n := 0; n <= maxN; n++ {
					add("map", MsgVal(root).Set(f, MapVal(f, n)))
				}
				if f.Kind == KInt32 {
					m := MapOf(f)
					for _, k := range Alphabet(f.Key) {
						m.Put(k, Int(KInt32, 7))
					}
					add("map-key-alphabet", MsgVal(root).Set(f, m))
				}
			}
		}
		// all pairs of fields (skipping one kind of field to reach another)
		fs := root.SortedFields()
		for i := 0; i < len(fs); i++ {
			for j := i + 1; j < len(fs); j++ {
				add("pair", MsgVal(root).Set(fs[i], val(fs[i], i)).Set(fs[j], val(fs[j], j)))
			}
		}
		if tier == "thorough" {
			// all triples of fields
			for i := 0; i < len(fs); i++ {
				for j := i + 1; j < len(fs); j++ {
					for k := j + 1; k < len(fs); k++ {
						add("triple", MsgVal(root).Set(fs[i], val(fs[i], i)).Set(fs[j], val(fs[j], j+1)).Set(fs[k], val(fs[k], k+2)))
					}
				}
			}
		}
		// windows of 4 fields in declaration order
		for i := 0; i+4 <= len(root.Fields); i++ {
			m := MsgVal(root)
			for j := i; j < i+4; j++ {
				m.Set(root.Fields[j], val(root.Fields[j], j))
			}
			add("window4", m)
		}
		all := MsgVal(root)
		for i, f := range root.Fields {
			all.Set(f, val(f, i+1))
		}
		add("all", all)
		// length sweep: a string (singular, or element 0 of a repeated string) of every length around the
		// 1->2 and 2->3 byte length-prefix boundaries and around the values whose low 7 bits are all ones
		// (126..129, 254..257, 382..385, 510..513, 16382..16385), followed on the wire by another field / element
		var sweep []int
		for _, c := range []int{128, 256, 384, 512, 16384} {
			for d := -2; d <= 1; d++ {
				sweep = append(sweep, c+d)
			}
		}
		if tier == "thorough" {
			sweep = nil
			for l := 120; l <= 520; l++ {
				sweep = append(sweep, l)
			}
			for l := 16376; l <= 16392; l++ {
				sweep = append(sweep, l)
			}
		}
		fs = root.SortedFields()
		for i, f := range fs {
			if f.Kind != KString || f.Card == Map {
				continue
			}
			var after *Field
			for _, g := range fs[i+1:] {
				if g.Card == Single && g.Kind != KMessage {
					after = g
				}
			}
			for _, l := range sweep {
				sv := Str(strings.Repeat("L", l))
				m := MsgVal(root)
				if f.Card == Repeated {
					m.Set(f, ListOf(f, sv, Str("next")))
				} else {
					m.Set(f, sv)
				}
				if after != nil {
					m.Set(after, Elem(after.Kind, 0))
				}
				add("length-sweep", m)
			}
		}
	}
	msgCache[key] = out
	return out
}

func nestedMessages(s *Schema) []NV {
	root := s.Root
	fa, fra, fma, fmi, fr, fx, ftail, fe := root.ByName("a"), root.ByName("ra"), root.ByName("ma"), root.ByName("mi"), root.ByName("r"), root.ByName("x"), root.ByName("tail"), root.ByName("e")
	sub1 := fa.Msg
	sub2 := sub1.ByName("d").Msg
	rec := fr.Msg
	S1 := func(kv ...interface{}) *Val {
		m := MsgVal(sub1)
		for i := 0; i < len(kv); i += 2 {
			m.Set(sub1.ByName(kv[i].(string)), kv[i+1].(*Val))
		}
		return m
	}
	S2 := func(kv ...interface{}) *Val {
		m := MsgVal(sub2)
		for i := 0; i < len(kv); i += 2 {
			m.Set(sub2.ByName(kv[i].(string)), kv[i+1].(*Val))
		}
		return m
	}
	R := func(kv ...interface{}) *Val {
		m := MsgVal(rec)
		for i := 0; i < len(kv); i += 2 {
			m.Set(rec.ByName(kv[i].(string)), kv[i+1].(*Val))
		}
		return m
	}
	T := func(kv ...interface{}) *Val {
		m := MsgVal(root)
		for i := 0; i < len(kv); i += 2 {
			m.Set(kv[i].(*Field), kv[i+1].(*Val))
		}
		return m
	}
	i32 := func(x int64) *Val { return Int(KInt32, x) }
	str := Str
	ints := func(f *Field, xs ...int64) *Val {
		l := ListOf(f)
		for _, x := range xs {
			l.L = append(l.L, Int(f.Kind, x))
		}
		return l
	}
	strs := func(f *Field, ss ...string) *Val {
		l := ListOf(f)
		for _, x := range ss {
			l.L = append(l.L, Str(x))
		}
		return l
	}
	pl, sl, zl, sm, im := sub1.ByName("pl"), sub1.ByName("sl"), sub1.ByName("zl"), sub1.ByName("sm"), sub1.ByName("im")
	kids := rec.ByName("kids")
	smv := func(kv ...interface{}) *Val {
		m := MapOf(sm)
		for i := 0; i < len(kv); i += 2 {
			m.Put(str(kv[i].(string)), i32(int64(kv[i+1].(int))))
		}
		return m
	}
	full1 := func(i int) *Val {
		return S1("i", i32(int64(10+i)), "s", str(fmt.Sprintf("sub%d", i)), "d", S2("z", Int(KSint32, int64(-3-i)), "b", Bytes([]byte{1, 2, byte(i)}), "e", MsgVal(sub2.ByName("e").Msg)),
			"pl", ints(pl, 1, -2, 300), "sl", strs(sl, "a", "", "c"), "sm", smv("k", 1, "", 2), "zl", ints(zl, 1, -2, -1<<40),
			"im", MapOf(im).Put(Int(KInt64, 7), str("x")).Put(Int(KInt64, -1), str("")))
	}
	var out []NV
	add := func(name string, v *Val) { out = append(out, NV{Name: name, V: v}) }
	add("empty-root", MsgVal(root))
	add("empty-submessage", T(fa, S1()))
	add("empty-submessage-last", T(fx, i32(3), fe, MsgVal(fe.Msg)))
	add("empty-submessage-between", T(fa, S1(), fx, i32(3)))
	add("sub-scalar", T(fa, S1("i", i32(5))))
	add("sub-string", T(fa, S1("s", str("x"))))
	add("depth2-empty", T(fa, S1("d", S2())))
	add("depth2-scalar", T(fa, S1("d", S2("z", Int(KSint32, -3)))))
	add("depth3-empty", T(fa, S1("d", S2("e", MsgVal(sub2.ByName("e").Msg)))))
	add("depth2-bytes-and-empty", T(fa, S1("d", S2("b", Bytes([]byte{9}), "e", MsgVal(sub2.ByName("e").Msg)))))
	add("sub-packed-list", T(fa, S1("pl", ints(pl, 1, -2, 300))))
	add("sub-string-list", T(fa, S1("sl", strs(sl, "a", "", "c"))))
	add("sub-zigzag-list", T(fa, S1("zl", ints(zl, 1, -2, -1<<40))))
	add("sub-strmap", T(fa, S1("sm", smv("k", 1, "", 2, "zz", 0))))
	add("sub-intmap", T(fa, S1("im", MapOf(im).Put(Int(KInt64, 7), str("x")).Put(Int(KInt64, -1), str("")))))
	add("sub-full", T(fa, full1(0)))
	add("sub-full-then-scalars", T(fa, full1(1), fx, i32(6), ftail, str("t")))
	add("list-of-messages", T(fra, ListOf(fra, S1("i", i32(1)), S1("s", str("z")))))
	add("list-of-messages-with-empty", T(fra, ListOf(fra, S1("i", i32(1)), S1(), S1("s", str("z")))))
	add("list-of-empty-messages", T(fra, ListOf(fra, S1(), S1())))
	add("list-of-full-messages", T(fra, ListOf(fra, full1(0), full1(1), full1(2))))
	add("list-of-messages-with-lists", T(fra, ListOf(fra, S1("sl", strs(sl, "a")), S1("sl", strs(sl, "b", "c")), S1("pl", ints(pl, 7)))))
	add("strmap-of-messages", T(fma, MapOf(fma).Put(str("k"), S1("i", i32(1))).Put(str("j"), full1(1))))
	add("strmap-of-messages-empty-value", T(fma, MapOf(fma).Put(str("k"), S1()).Put(str(""), S1("i", i32(2)))))
	add("intmap-of-messages", T(fmi, MapOf(fmi).Put(i32(5), S1("s", str("v"))).Put(i32(-1), full1(2)).Put(i32(0), S1())))
	add("recursive-scalar", T(fr, R("v", i32(1))))
	add("recursive-chain", T(fr, R("next", R("next", R("v", i32(3))))))
	add("recursive-chain-with-values", T(fr, R("v", i32(1), "next", R("v", i32(2), "next", R("v", i32(3))))))
	add("recursive-list-flat", T(fr, R("kids", ListOf(kids, R("v", i32(1)), R("v", i32(2))))))
	add("recursive-list-nested", T(fr, R("kids", ListOf(kids, R("kids", ListOf(kids, R("v", i32(1)))), R("v", i32(2))))))
	add("recursive-list-nested-empty", T(fr, R("kids", ListOf(kids, R("kids", ListOf(kids, R())), R()))))
	add("sub-string-list-then-same-number-in-parent", T(fa, S1("sl", strs(sl, "x")), fr, R("v", i32(1))))
	add("sub-strmap-then-same-number-in-parent", T(fa, S1("sm", smv("k", 1)), fx, i32(7)))
	add("len2-depth1", T(fa, S1("s", str(strings.Repeat("L", 200)))))
	add("len2-depth2", T(fa, S1("d", S2("b", Bytes(bytes.Repeat([]byte{0x0a}, 130))))))
	add("len3-depth0", T(ftail, str(strings.Repeat("T", 20000))))
	add("len3-depth1", T(fa, S1("s", str(strings.Repeat("M", 17000))), fx, i32(1)))
	add("len-127", T(fa, S1("s", str(strings.Repeat("m", 125))), fx, i32(1)))
	add("len-128", T(fa, S1("s", str(strings.Repeat("m", 126))), fx, i32(1)))
	add("all-top-level", T(fa, full1(0), fra, ListOf(fra, full1(1), S1()), fma, MapOf(fma).Put(str("k"), full1(2)), fmi, MapOf(fmi).Put(i32(1), S1("i", i32(4))),
		fr, R("v", i32(5), "kids", ListOf(kids, R("v", i32(6)))), fx, i32(6), ftail, str("t"), fe, MsgVal(fe.Msg)))
	return out
}
