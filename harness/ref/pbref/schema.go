// Package pbref is the protobuf-side reference layer shared by the checks C07, C10 and C20:
//
//   - a tiny schema model (Schema/Message/Field) from which proto3 source text is generated;
//   - descriptors of that text for the code under test (dynamicgo proto.NewDescritorFromContent) and for the
//     REFERENCE implementation (jhump protoparse from the same in-memory text -> FileDescriptorProto ->
//     google.golang.org/protobuf protodesc/dynamicpb, plus jhump dynamic.Message as a second opinion);
//   - a boring tree model of a message value (Val) with conversions to/from the reference implementation,
//     a canonical key (for state de-duplication) and NaN-aware equality;
//   - a model of edits (set / unset) on that tree for history checks.
//
// The harness generated the schema text, so it already knows the intended structure; the reference
// implementation is the judge of bytes (encode: proto.MarshalOptions{Deterministic}, decode: proto.Unmarshal).
package pbref

import (
	"fmt"
	"sort"
	"strings"
)

// Kind has the numbering of protoreflect.Kind (and of dynamicgo's proto.Type for scalars).
type Kind int8

const (
	KDouble   Kind = 1
	KFloat    Kind = 2
	KInt64    Kind = 3
	KUint64   Kind = 4
	KInt32    Kind = 5
	KFixed64  Kind = 6
	KFixed32  Kind = 7
	KBool     Kind = 8
	KString   Kind = 9
	KMessage  Kind = 11
	KBytes    Kind = 12
	KUint32   Kind = 13
	KEnum     Kind = 14
	KSfixed32 Kind = 15
	KSfixed64 Kind = 16
	KSint32   Kind = 17
	KSint64   Kind = 18
)

// ScalarKinds: the 15 scalar kinds of proto3 plus enum, in a fixed order.
var ScalarKinds = []Kind{KBool, KInt32, KSint32, KUint32, KInt64, KSint64, KUint64, KFixed32, KSfixed32, KFloat, KFixed64, KSfixed64, KDouble, KString, KBytes, KEnum}

// MapKeyKinds: every kind proto3 allows as a map key.
var MapKeyKinds = []Kind{KInt32, KInt64, KUint32, KUint64, KSint32, KSint64, KFixed32, KFixed64, KSfixed32, KSfixed64, KBool, KString}

func (k Kind) String() string {
	switch k {
	case KDouble:
		return "double"
	case KFloat:
		return "float"
	case KInt64:
		return "int64"
	case KUint64:
		return "uint64"
	case KInt32:
		return "int32"
	case KFixed64:
		return "fixed64"
	case KFixed32:
		return "fixed32"
	case KBool:
		return "bool"
	case KString:
		return "string"
	case KMessage:
		return "message"
	case KBytes:
		return "bytes"
	case KUint32:
		return "uint32"
	case KEnum:
		return "enum"
	case KSfixed32:
		return "sfixed32"
	case KSfixed64:
		return "sfixed64"
	case KSint32:
		return "sint32"
	case KSint64:
		return "sint64"
	}
	return fmt.Sprintf("kind%d", int(k))
}

// Wire type of a kind: 0 varint, 1 fixed64, 2 bytes, 5 fixed32.
func (k Kind) Wire() int {
	switch k {
	case KDouble, KFixed64, KSfixed64:
		return 1
	case KFloat, KFixed32, KSfixed32:
		return 5
	case KString, KBytes, KMessage:
		return 2
	}
	return 0
}

// Packable: repeated fields of this kind are packed in proto3.
func (k Kind) Packable() bool { return k.Wire() != 2 }

func (k Kind) IsInt() bool {
	switch k {
	case KInt32, KInt64, KUint32, KUint64, KSint32, KSint64, KFixed32, KFixed64, KSfixed32, KSfixed64:
		return true
	}
	return false
}
func (k Kind) IsUnsigned() bool {
	return k == KUint32 || k == KUint64 || k == KFixed32 || k == KFixed64
}
func (k Kind) Is32() bool {
	switch k {
	case KInt32, KUint32, KSint32, KFixed32, KSfixed32, KFloat, KEnum:
		return true
	}
	return false
}

type Card int8

const (
	Single Card = iota
	Repeated
	Map
)

func (c Card) String() string { return [...]string{"single", "repeated", "map"}[c] }

// Field of a message. For Card==Map, Key is the key kind and Kind/Msg describe the value.
type Field struct {
	Name string
	Num  int32
	Kind Kind
	Card Card
	Key  Kind
	Msg  *Message // Kind == KMessage
}

func (f *Field) Packed() bool { return f.Card == Repeated && f.Kind.Packable() }

func (f *Field) String() string {
	t := f.Kind.String()
	if f.Kind == KMessage {
		t = f.Msg.Name
	}
	switch f.Card {
	case Repeated:
		return fmt.Sprintf("repeated %s %s=%d", t, f.Name, f.Num)
	case Map:
		return fmt.Sprintf("map<%s,%s> %s=%d", f.Key, t, f.Name, f.Num)
	}
	return fmt.Sprintf("%s %s=%d", t, f.Name, f.Num)
}

// Message declaration. Parent != nil makes it a nested declaration (name scoping only).
type Message struct {
	Name   string
	Fields []*Field
	Parent *Message
}

func (m *Message) ByNum(n int32) *Field {
	for _, f := range m.Fields {
		if f.Num == n {
			return f
		}
	}
	return nil
}
func (m *Message) ByName(n string) *Field {
	for _, f := range m.Fields {
		if f.Name == n {
			return f
		}
	}
	return nil
}

// FullName inside the package (Outer.Inner for nested declarations).
func (m *Message) FullName() string {
	if m.Parent != nil {
		return m.Parent.FullName() + "." + m.Name
	}
	return m.Name
}

// Add appends a field and returns the message (builder style).
func (m *Message) Add(f *Field) *Message { m.Fields = append(m.Fields, f); return m }

// Schema = one proto3 file with package "vp", one enum E0, the messages and a service whose only method takes Root.
// NOTE on naming: dynamicgo caches parsed messages by SIMPLE name (property C15's subject), including the synthetic
// <Field>Entry messages of map fields. Schemas used for C07/C10/C20 therefore keep every message name and every
// map field name unique in the file, so that those checks do not trip over C15's defect.
type Schema struct {
	ID   string
	Msgs []*Message // declaration order; nested ones are listed too (after their parent)
	Root *Message
}

const Pkg = "vp"
const FilePath = "vp/main.proto"

// Source renders proto3 text.
func (s *Schema) Source() string {
	var b strings.Builder
	b.WriteString("syntax = \"proto3\";\npackage " + Pkg + ";\noption go_package = \"vp/main\";\n\n")
	b.WriteString("enum E0 {\n  E0_ZERO = 0;\n  E0_ONE = 1;\n  E0_TWO = 2;\n  E0_NEG = -1;\n  E0_BIG = 2147483647;\n}\n\n")
	var emit func(m *Message, ind string)
	emit = func(m *Message, ind string) {
		fmt.Fprintf(&b, "%smessage %s {\n", ind, m.Name)
		for _, c := range s.Msgs {
			if c.Parent == m {
				emit(c, ind+"  ")
			}
		}
		for _, f := range m.Fields {
			t := f.Kind.String()
			if f.Kind == KMessage {
				t = Pkg + "." + f.Msg.FullName()
			} else if f.Kind == KEnum {
				t = "E0"
			}
			switch f.Card {
			case Repeated:
				fmt.Fprintf(&b, "%s  repeated %s %s = %d;\n", ind, t, f.Name, f.Num)
			case Map:
				fmt.Fprintf(&b, "%s  map<%s, %s> %s = %d;\n", ind, f.Key, t, f.Name, f.Num)
			default:
				fmt.Fprintf(&b, "%s  %s %s = %d;\n", ind, t, f.Name, f.Num)
			}
		}
		fmt.Fprintf(&b, "%s}\n", ind)
	}
	for _, m := range s.Msgs {
		if m.Parent == nil {
			emit(m, "")
			b.WriteString("\n")
		}
	}
	// the response is a separate tiny message: dynamicgo parses request and response types separately, and a root
	// message with a huge field number costs 8 bytes per number each time it is parsed
	b.WriteString("message VpResp {\n  int32 ok = 1;\n}\n\n")
	fmt.Fprintf(&b, "service Svc {\n  rpc M(%s) returns (VpResp);\n}\n", s.Root.FullName())
	return b.String()
}

// Validate checks the naming discipline stated above (harness self check; no dynamicgo involved).
func (s *Schema) Validate() error {
	names := map[string]bool{}
	// (the cache keyed by simple name was repaired: equal simple names in different scopes are part of the scope now)
	for _, m := range s.Msgs {
		if names[m.FullName()] {
			return fmt.Errorf("schema %s: duplicate message name %s", s.ID, m.FullName())
		}
		names[m.FullName()] = true
	}
	mapNames := map[string]bool{}
	for _, m := range s.Msgs {
		nums := map[int32]bool{}
		fn := map[string]bool{}
		for _, f := range m.Fields {
			if nums[f.Num] || fn[f.Name] {
				return fmt.Errorf("schema %s: message %s: duplicate field %s/%d", s.ID, m.Name, f.Name, f.Num)
			}
			nums[f.Num], fn[f.Name] = true, true
			if f.Num < 1 || f.Num > 1<<29-1 || (f.Num >= 19000 && f.Num <= 19999) {
				return fmt.Errorf("schema %s: bad field number %d", s.ID, f.Num)
			}
			if f.Card == Map {
				e := entryName(f.Name)
				if mapNames[e] || names[e] {
					return fmt.Errorf("schema %s: map entry name %s not unique", s.ID, e)
				}
				mapNames[e] = true
			}
			if f.Kind == KMessage {
				ok := false
				for _, x := range s.Msgs {
					if x == f.Msg {
						ok = true
					}
				}
				if !ok {
					return fmt.Errorf("schema %s: field %s refers to a message outside the schema", s.ID, f.Name)
				}
			}
		}
	}
	return nil
}

func entryName(field string) string {
	// protoc rule: CamelCase(field)+"Entry"
	var b strings.Builder
	up := true
	for _, c := range field {
		if c == '_' {
			up = true
			continue
		}
		if up && c >= 'a' && c <= 'z' {
			c -= 32
		}
		up = false
		b.WriteRune(c)
	}
	return b.String() + "Entry"
}

// SortedFields returns the fields in ascending field-number order (the order of the reference encoder).
func (m *Message) SortedFields() []*Field {
	fs := append([]*Field{}, m.Fields...)
	sort.SliceStable(fs, func(i, j int) bool { return fs[i].Num < fs[j].Num })
	return fs
}

// Lacking returns a copy of the schema in which every message with at least two fields lacks one of them
// ("first", "middle" or "last" of its declaration order): the descriptor a reader with an OLDER version of the
// file holds. Messages encoded with s carry those fields as unknown fields for the copy.
func (s *Schema) Lacking(which string) *Schema {
	out := &Schema{ID: s.ID + "~lacks-" + which}
	m2 := map[*Message]*Message{}
	for _, m := range s.Msgs {
		n := &Message{Name: m.Name}
		m2[m] = n
		out.Msgs = append(out.Msgs, n)
	}
	for _, m := range s.Msgs {
		n := m2[m]
		if m.Parent != nil {
			n.Parent = m2[m.Parent]
		}
		drop := -1
		if len(m.Fields) >= 2 {
			switch which {
			case "first":
				drop = 0
			case "middle":
				drop = len(m.Fields) / 2
			default:
				drop = len(m.Fields) - 1
			}
		}
		for i, f := range m.Fields {
			if i == drop {
				continue
			}
			c := *f
			if c.Msg != nil {
				c.Msg = m2[c.Msg]
			}
			n.Fields = append(n.Fields, &c)
		}
	}
	out.Root = m2[s.Root]
	return out
}
