package pbref

import (
	"testing"
)

func allProgs() []*Schema {
	ps := []*Schema{ProgScalars("low"), ProgScalars("tags"), ProgLists("low"), ProgLists("tags"), ProgNested(), ProgBigID(2048)}
	for _, k := range MapKeyKinds {
		ps = append(ps, ProgMaps(k))
	}
	return ps
}

func TestRefPipeline(t *testing.T) {
	for _, s := range allProgs() {
		if err := s.CheckRef(); err != nil {
			t.Fatal(err)
		}
		// a message with every field set
		v := MsgVal(s.Root)
		for _, f := range s.Root.Fields {
			switch {
			case f.Card == Repeated:
				v.Set(f, ListVal(f, 3))
			case f.Card == Map:
				v.Set(f, MapVal(f, 3))
			case f.Kind == KMessage:
				v.Set(f, MsgVal(f.Msg))
			default:
				v.Set(f, Elem(f.Kind, 1))
			}
		}
		if err := s.JhumpAgrees(v); err != nil {
			t.Fatalf("%s: %v", s.ID, err)
		}
		for _, f := range s.Root.Fields {
			if f.Card == Single && f.Kind != KMessage {
				for _, a := range Alphabet(f.Kind) {
					w := MsgVal(s.Root).Set(f, a)
					if err := s.JhumpAgrees(w); err != nil {
						t.Fatalf("%s: %v", s.ID, err)
					}
				}
			}
		}
	}
}

func TestDynParses(t *testing.T) {
	for _, s := range allProgs() {
		d, err := s.Dyn()
		if err != nil {
			t.Fatal(err)
		}
		for _, f := range s.Root.Fields {
			if DynFieldOf(d, f.Num) == nil {
				t.Fatalf("%s: field %d missing in dynamicgo descriptor", s.ID, f.Num)
			}
		}
	}
}
