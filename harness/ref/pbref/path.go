package pbref

import (
	"fmt"
	"math"
	"strings"
	"unicode/utf8"

	gpw "google.golang.org/protobuf/encoding/protowire"
)

// StepKind of one path element.
type StepKind int8

const (
	SField StepKind = iota // into a message by field (number or name chosen by the caller)
	SIndex                 // into a list
	SKey                   // into a map (string or integer key, by the map's key kind)
)

type Step struct {
	K   StepKind
	F   *Field // SField
	I   int    // SIndex
	Key *Val   // SKey
}

func (s Step) String() string {
	switch s.K {
	case SField:
		return fmt.Sprintf(".%s(%d)", s.F.Name, s.F.Num)
	case SIndex:
		return fmt.Sprintf("[%d]", s.I)
	}
	return "{" + s.Key.String() + "}"
}

func PathString(p []Step) string {
	var b strings.Builder
	for _, s := range p {
		b.WriteString(s.String())
	}
	if b.Len() == 0 {
		return "(root)"
	}
	return b.String()
}

// KeyInt is the Go int a library user passes for an integer map key (wraps like the library's own int(...) casts).
func KeyInt(k *Val) int { return int(int64(k.U)) }

// Child resolves one step on a model node; nil if absent (or the step does not fit the node).
func Child(v *Val, s Step) *Val {
	if v == nil {
		return nil
	}
	switch s.K {
	case SField:
		if v.Card != Single || v.Kind != KMessage {
			return nil
		}
		return v.Get(s.F.Num)
	case SIndex:
		if v.Card != Repeated || s.I < 0 || s.I >= len(v.L) {
			return nil
		}
		return v.L[s.I]
	case SKey:
		if v.Card != Map {
			return nil
		}
		_, x := v.Lookup(s.Key)
		return x
	}
	return nil
}

// Resolve follows a path from root.
func Resolve(root *Val, p []Step) *Val {
	v := root
	for _, s := range p {
		v = Child(v, s)
		if v == nil {
			return nil
		}
	}
	return v
}

// Walk visits every present node of the tree (root included, with the empty path), parents before children.
func Walk(root *Val, visit func(p []Step, v *Val)) {
	var rec func(p []Step, v *Val)
	rec = func(p []Step, v *Val) {
		visit(p, v)
		ext := func(s Step) []Step { return append(append([]Step{}, p...), s) }
		switch {
		case v.Card == Repeated:
			for i, e := range v.L {
				rec(ext(Step{K: SIndex, I: i}), e)
			}
		case v.Card == Map:
			for i := range v.MK {
				rec(ext(Step{K: SKey, Key: v.MK[i]}), v.MV[i])
			}
		case v.Kind == KMessage:
			for _, fv := range v.Fs {
				rec(ext(Step{K: SField, F: fv.F}), fv.V)
			}
		}
	}
	rec(nil, root)
}

// AbsentKey returns a key of the map's key kind that is not in map m. Candidates are chosen ADJACENT to present keys
// first (a proper prefix of a present string key, a present integer key +-1), so that a sloppy comparison shows.
func AbsentKey(m *Val) *Val {
	var cands []*Val
	if m.Key == KString {
		for _, k := range m.MK {
			if len(k.B) > 0 {
				cands = append(cands, Str(string(k.B[:len(k.B)-1])))
			}
		}
		cands = append(cands, Str("absent"), Str(""), Str("k"), Str("k00"))
	} else if m.Key == KBool {
		cands = []*Val{Bool(false), Bool(true)}
	} else {
		for _, k := range m.MK {
			cands = append(cands, Int(m.Key, int64(k.U)+1), Int(m.Key, int64(k.U)-1))
		}
		for _, x := range []int64{77, 0, 5, 1 << 20} {
			cands = append(cands, Int(m.Key, x))
		}
	}
	for _, c := range cands {
		if m.Key == KString && !validUTF8(c.B) {
			continue
		}
		if i, _ := m.Lookup(c); i < 0 {
			return c
		}
	}
	return nil
}

func validUTF8(b []byte) bool { return utf8.Valid(b) }

// --- reference byte forms of nodes (built only from protobuf-go's protowire primitives and Schema.Encode)

// EncScalar returns the (L)V bytes of a scalar value, i.e. the value without its tag.
func EncScalar(k Kind, v *Val) []byte {
	switch k {
	case KBool, KInt32, KInt64, KUint32, KUint64, KEnum:
		return gpw.AppendVarint(nil, v.U)
	case KSint32, KSint64:
		return gpw.AppendVarint(nil, gpw.EncodeZigZag(int64(v.U)))
	case KFixed32, KSfixed32, KFloat:
		return gpw.AppendFixed32(nil, uint32(v.U))
	case KFixed64, KSfixed64, KDouble:
		return gpw.AppendFixed64(nil, v.U)
	case KString, KBytes:
		return gpw.AppendBytes(nil, v.B)
	}
	panic("pbref.EncScalar: " + k.String())
}

// NodeBytes returns the bytes a generic node for v is documented to span:
//
//	scalar           -> (L)V without tag
//	nested message   -> length prefix + payload (root: payload only)
//	list / map field -> from the first element's tag to the end of the last element, i.e. the reference encoding of a
//	                    message of type `holder` holding only that field.
func (s *Schema) NodeBytes(v *Val, holder *Message, f *Field, isRoot bool) []byte {
	switch {
	case v.Card == Repeated || v.Card == Map:
		return s.Encode(MsgVal(holder).Set(f, v))
	case v.Kind == KMessage:
		b := s.Encode(v)
		if isRoot {
			return b
		}
		return gpw.AppendBytes(nil, b)
	}
	return EncScalar(v.Kind, v)
}

// FloatOf / DoubleOf helpers for casts.
func (v *Val) Float32() float32 { return math.Float32frombits(uint32(v.U)) }
func (v *Val) Float64() float64 { return math.Float64frombits(v.U) }
