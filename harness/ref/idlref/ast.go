package idlref

import (
	"fmt"
	"path/filepath"

	"github.com/cloudwego/thriftgo/parser"
	"github.com/cloudwego/thriftgo/semantic"
)

// ParseAST parses the rendered program with thriftgo's parser (independent of dynamicgo), links the
// includes the way a file-system parse would, and runs thriftgo's semantic resolution: an error means
// the generated program is NOT a valid Thrift IDL (a harness error).
func ParseAST(p *Program) (*parser.Thrift, map[*File]*parser.Thrift, error) {
	asts := map[*File]*parser.Thrift{}
	for _, f := range p.Files() {
		t, err := parser.ParseString(f.Path, f.Render())
		if err != nil {
			return nil, nil, fmt.Errorf("%s: %v\n%s", f.Path, err, f.Render())
		}
		asts[f] = t
	}
	for f, t := range asts {
		if len(t.Includes) != len(f.Includes) {
			return nil, nil, fmt.Errorf("%s: %d includes parsed, %d declared", f.Path, len(t.Includes), len(f.Includes))
		}
		for i, inc := range t.Includes {
			want := f.Includes[i]
			if inc.Path != want.Path {
				return nil, nil, fmt.Errorf("%s: include %q != %q", f.Path, inc.Path, want.Path)
			}
			// the registered path must be what a resolver computes: relative to the including file, or verbatim
			rel := filepath.Join(filepath.Dir(f.Path), want.Path)
			if want.F.Path != rel && want.F.Path != want.Path {
				return nil, nil, fmt.Errorf("%s: include %q is registered as %q, resolver would look for %q", f.Path, want.Path, want.F.Path, rel)
			}
			inc.Reference = asts[want.F]
		}
	}
	main := asts[p.Main]
	if err := semantic.ResolveSymbols(main); err != nil {
		return nil, nil, fmt.Errorf("semantic: %v", err)
	}
	return main, asts, nil
}

// Validate requires that thriftgo's AST of the rendered text says exactly what the object graph says.
func Validate(p *Program) error {
	_, asts, err := ParseAST(p)
	if err != nil {
		return fmt.Errorf("program %s: %v", p.Name, err)
	}
	for _, f := range p.Files() {
		if err := validateFile(f, asts[f]); err != nil {
			return fmt.Errorf("program %s file %s: %v", p.Name, f.Path, err)
		}
	}
	return nil
}

func validateFile(f *File, t *parser.Thrift) error {
	if len(t.Typedefs) != len(f.Typedefs) || len(t.Enums) != len(f.Enums) || len(t.Constants) != len(f.Consts) || len(t.Services) != len(f.Services) {
		return fmt.Errorf("definition counts differ")
	}
	if len(t.GetStructLikes()) != len(f.Structs) {
		return fmt.Errorf("struct-like count %d != %d", len(t.GetStructLikes()), len(f.Structs))
	}
	for i, td := range f.Typedefs {
		a := t.Typedefs[i]
		if a.Alias != td.Name {
			return fmt.Errorf("typedef %s: name %s", td.Name, a.Alias)
		}
		if err := sameType(f, td.T, a.Type); err != nil {
			return fmt.Errorf("typedef %s: %v", td.Name, err)
		}
	}
	for i, e := range f.Enums {
		a := t.Enums[i]
		if a.Name != e.Name || len(a.Values) != len(e.Vals) {
			return fmt.Errorf("enum %s differs", e.Name)
		}
		for j, v := range e.Vals {
			if a.Values[j].Name != v.Name || a.Values[j].Value != v.V {
				return fmt.Errorf("enum %s value %s differs", e.Name, v.Name)
			}
		}
	}
	for i, c := range f.Consts {
		a := t.Constants[i]
		if a.Name != c.Name {
			return fmt.Errorf("const %s: name %s", c.Name, a.Name)
		}
		if err := sameType(f, c.T, a.Type); err != nil {
			return fmt.Errorf("const %s: %v", c.Name, err)
		}
		if err := sameLit(f, c.V, a.Value); err != nil {
			return fmt.Errorf("const %s: %v", c.Name, err)
		}
	}
	for _, s := range f.Structs {
		var a *parser.StructLike
		var ok bool
		switch s.Cat {
		case "struct":
			a, ok = t.GetStruct(s.Name)
		case "union":
			a, ok = t.GetUnion(s.Name)
		case "exception":
			a, ok = t.GetException(s.Name)
		}
		if !ok {
			return fmt.Errorf("%s %s not in AST", s.Cat, s.Name)
		}
		if len(a.Fields) != len(s.Fields) {
			return fmt.Errorf("%s: %d fields in AST, %d declared", s.Name, len(a.Fields), len(s.Fields))
		}
		for j, fd := range s.Fields {
			af := a.Fields[j]
			if int(af.ID) != fd.ID || af.Name != fd.Name {
				return fmt.Errorf("%s.%s: id/name %d/%s in AST", s.Name, fd.Name, af.ID, af.Name)
			}
			wantReq := map[int]parser.FieldType{ReqDefault: parser.FieldType_Default, ReqRequired: parser.FieldType_Required, ReqOptional: parser.FieldType_Optional}[fd.Req]
			if s.Cat == "union" {
				wantReq = parser.FieldType_Optional // thriftgo (and Thrift) make every union member optional
			}
			if af.Requiredness != wantReq {
				return fmt.Errorf("%s.%s: requiredness %v in AST, want %v", s.Name, fd.Name, af.Requiredness, wantReq)
			}
			if err := sameType(f, fd.T, af.Type); err != nil {
				return fmt.Errorf("%s.%s: %v", s.Name, fd.Name, err)
			}
			if (fd.Def != nil) != af.IsSetDefault() {
				return fmt.Errorf("%s.%s: default presence differs", s.Name, fd.Name)
			}
			if fd.Def != nil {
				if err := sameLit(f, fd.Def, af.Default); err != nil {
					return fmt.Errorf("%s.%s: %v", s.Name, fd.Name, err)
				}
			}
			if len(af.Annotations) != len(fd.Annos) {
				return fmt.Errorf("%s.%s: %d annotations in AST, want %d", s.Name, fd.Name, len(af.Annotations), len(fd.Annos))
			}
			for k, an := range fd.Annos {
				if af.Annotations[k].Key != an.K || len(af.Annotations[k].Values) != 1 || af.Annotations[k].Values[0] != an.V {
					return fmt.Errorf("%s.%s: annotation %s=%q is %v in AST", s.Name, fd.Name, an.K, an.V, af.Annotations[k])
				}
			}
		}
	}
	for i, s := range f.Services {
		a := t.Services[i]
		if a.Name != s.Name || len(a.Functions) != len(s.Funcs) {
			return fmt.Errorf("service %s differs", s.Name)
		}
		wantExt := ""
		if s.Extends != nil {
			wantExt = f.prefixOf(s.Extends.File) + s.Extends.Name
		}
		if a.Extends != wantExt {
			return fmt.Errorf("service %s extends %q in AST, want %q", s.Name, a.Extends, wantExt)
		}
		for j, fn := range s.Funcs {
			af := a.Functions[j]
			if af.Name != fn.Name || af.Oneway != fn.Oneway || af.Void != (fn.Ret.K == Void) || len(af.Arguments) != 1 {
				return fmt.Errorf("function %s.%s differs", s.Name, fn.Name)
			}
			if int(af.Arguments[0].ID) != fn.ArgID || af.Arguments[0].Name != fn.ArgName {
				return fmt.Errorf("function %s.%s argument differs", s.Name, fn.Name)
			}
			if err := sameType(f, fn.Arg, af.Arguments[0].Type); err != nil {
				return fmt.Errorf("function %s.%s arg: %v", s.Name, fn.Name, err)
			}
			if fn.Ret.K != Void {
				if err := sameType(f, fn.Ret, af.FunctionType); err != nil {
					return fmt.Errorf("function %s.%s ret: %v", s.Name, fn.Name, err)
				}
			}
			if (fn.Throw != nil) != (len(af.Throws) == 1) {
				return fmt.Errorf("function %s.%s throws differs", s.Name, fn.Name)
			}
			if fn.Throw != nil {
				if int(af.Throws[0].ID) != fn.ThrowID || af.Throws[0].Name != fn.ThrowName {
					return fmt.Errorf("function %s.%s throws id/name differs", s.Name, fn.Name)
				}
				if err := sameType(f, fn.Throw, af.Throws[0].Type); err != nil {
					return fmt.Errorf("function %s.%s throws: %v", s.Name, fn.Name, err)
				}
			}
		}
	}
	return nil
}

// sameType: the AST type (after thriftgo's semantic resolution filled Category) names the same thing.
func sameType(f *File, t *TRef, a *parser.Type) error {
	if a == nil {
		return fmt.Errorf("nil AST type")
	}
	if a.Name != typeHead(f, t) {
		return fmt.Errorf("type %q in AST, want %q", a.Name, typeHead(f, t))
	}
	switch t.K {
	case List, Set:
		return sameType(f, t.Elem, a.ValueType)
	case Map:
		if err := sameType(f, t.Key, a.KeyType); err != nil {
			return err
		}
		return sameType(f, t.Elem, a.ValueType)
	case StructK:
		want := map[string]parser.Category{"struct": parser.Category_Struct, "union": parser.Category_Union, "exception": parser.Category_Exception}[t.S.Cat]
		if a.Category != want {
			return fmt.Errorf("type %q has category %v, want %v", a.Name, a.Category, want)
		}
	case EnumK:
		if a.Category != parser.Category_Enum {
			return fmt.Errorf("type %q has category %v, want enum", a.Name, a.Category)
		}
	case TypedefK:
		if a.IsTypedef == nil || !*a.IsTypedef {
			return fmt.Errorf("type %q is not a typedef in the AST", a.Name)
		}
	}
	return nil
}

func typeHead(f *File, t *TRef) string {
	switch t.K {
	case List:
		return "list"
	case Set:
		return "set"
	case Map:
		return "map"
	}
	return f.TypeText(t)
}

func sameLit(f *File, l *Lit, a *parser.ConstValue) error {
	if a == nil || a.TypedValue == nil {
		return fmt.Errorf("nil AST const value")
	}
	switch l.K {
	case LInt:
		if a.Type != parser.ConstType_ConstInt || a.TypedValue.Int == nil || *a.TypedValue.Int != l.Int {
			return fmt.Errorf("int literal %d is %v in AST", l.Int, a)
		}
	case LDouble:
		if a.Type != parser.ConstType_ConstDouble || a.TypedValue.Double == nil || *a.TypedValue.Double != l.F {
			return fmt.Errorf("double literal %s is %v in AST", l.Text, a)
		}
	case LString:
		if a.Type != parser.ConstType_ConstLiteral || a.TypedValue.Literal == nil || *a.TypedValue.Literal != l.Text {
			return fmt.Errorf("string literal %q is %v in AST", l.Text, a)
		}
	default:
		if a.Type != parser.ConstType_ConstIdentifier || a.TypedValue.Identifier == nil || *a.TypedValue.Identifier != f.litText(l) {
			return fmt.Errorf("identifier %s is %v in AST", f.litText(l), a)
		}
	}
	return nil
}
