// Package idlref is the reference model of a Thrift IDL *program*: an object graph built by the
// generator (files, typedefs, enums, constants, struct-likes, services), a renderer to IDL text and a
// validator that walks thriftgo's parser AST of the rendered text and requires that it says the same
// thing as the object graph. The object graph is "the generator's own structure" of DESIGN.md 5/C14:
// because type references are Go pointers, no name resolution is needed to know what a field's type is.
// No dependency on dynamicgo.
package idlref

import (
	"fmt"
	"path/filepath"
	"sort"
	"strings"
)

// Kind of a type reference.
type Kind int

const (
	Bool Kind = iota
	Byte      // written "byte"
	I8        // written "i8"
	I16
	I32
	I64
	Double
	String
	Binary
	List
	Set
	Map
	StructK  // struct / union / exception
	EnumK    // enum
	TypedefK // typedef alias
	Void
)

var kindText = map[Kind]string{Bool: "bool", Byte: "byte", I8: "i8", I16: "i16", I32: "i32", I64: "i64", Double: "double", String: "string", Binary: "binary", Void: "void"}

// TRef is a reference to a type as written at one place of the IDL.
type TRef struct {
	K    Kind
	Elem *TRef // list/set element, map value
	Key  *TRef // map key
	S    *Struct
	E    *Enum
	TD   *Typedef
}

func T(k Kind) *TRef         { return &TRef{K: k} }
func ListOf(e *TRef) *TRef   { return &TRef{K: List, Elem: e} }
func SetOf(e *TRef) *TRef    { return &TRef{K: Set, Elem: e} }
func MapOf(k, v *TRef) *TRef { return &TRef{K: Map, Key: k, Elem: v} }
func Ref(s *Struct) *TRef    { return &TRef{K: StructK, S: s} }
func RefE(e *Enum) *TRef     { return &TRef{K: EnumK, E: e} }
func RefTD(t *Typedef) *TRef { return &TRef{K: TypedefK, TD: t} }
func (t *TRef) Resolve() *TRef { // strips typedefs
	for t.K == TypedefK {
		t = t.TD.T
	}
	return t
}

const (
	ReqDefault  = 0
	ReqRequired = 1
	ReqOptional = 2
)

// LitKind of a default / constant value.
type LitKind int

const (
	LInt    LitKind = iota // integer literal
	LDouble                // double literal (text form kept)
	LString                // string literal
	LIdent                 // bare identifier true / false
	LConst                 // reference to a constant
	LEnum                  // reference to an enum value (Enum.Value)
)

// Lit is a constant value as written.
type Lit struct {
	K    LitKind
	Int  int64
	F    float64
	Text string // LDouble: the text written; LString: the content; LIdent: the identifier
	C    *Const
	E    *Enum
	EV   string // enum value name
}

type Typedef struct {
	File *File
	Name string
	T    *TRef
}
type EnumVal struct {
	Name string
	V    int64
}
type Enum struct {
	File *File
	Name string
	Vals []EnumVal
}
type Const struct {
	File *File
	Name string
	T    *TRef
	V    *Lit
}

// Anno is one annotation key="value".
type Anno struct{ K, V string }

type Field struct {
	ID    int
	Name  string
	Req   int
	T     *TRef
	Def   *Lit
	Annos []Anno
	// Feat is the trigger class of this field for signatures (set by the generator), e.g. "default:int-on-double".
	Feat string
}

type Struct struct {
	File   *File
	Name   string
	Cat    string // struct | union | exception
	Fields []*Field
	Feat   string
}

type Func struct {
	Name    string
	Oneway  bool
	Ret     *TRef // K==Void for void
	ArgID   int
	ArgName string
	Arg     *TRef
	// at most one exception (the library documents single-exception support)
	ThrowID   int
	ThrowName string
	Throw     *TRef
	Annos     []Anno
	Feat      string
}

type Service struct {
	File    *File
	Name    string
	Extends *Service
	Funcs   []*Func
}

// Include of another file, Path as written in the include statement.
type Include struct {
	Path string
	F    *File
}

type File struct {
	Path     string // the path under which the file is registered (main path or key of the includes map)
	NS       string
	Includes []*Include
	Typedefs []*Typedef
	Enums    []*Enum
	Consts   []*Const
	Structs  []*Struct
	Services []*Service
}

// Program = main file + the transitive includes.
type Program struct {
	Name string
	Main *File
	Feat string
	// DescOnly: the program is compared in the descriptor groups only (its structs have side-dependent field sets)
	DescOnly bool
}

func (f *File) AddStruct(cat, name string, fields ...*Field) *Struct {
	s := &Struct{File: f, Name: name, Cat: cat, Fields: fields}
	f.Structs = append(f.Structs, s)
	return s
}
func (f *File) AddEnum(name string, vals ...EnumVal) *Enum {
	e := &Enum{File: f, Name: name, Vals: vals}
	f.Enums = append(f.Enums, e)
	return e
}
func (f *File) AddTypedef(name string, t *TRef) *Typedef {
	td := &Typedef{File: f, Name: name, T: t}
	f.Typedefs = append(f.Typedefs, td)
	return td
}
func (f *File) AddConst(name string, t *TRef, v *Lit) *Const {
	c := &Const{File: f, Name: name, T: t, V: v}
	f.Consts = append(f.Consts, c)
	return c
}
func (f *File) AddService(name string, ext *Service, fns ...*Func) *Service {
	s := &Service{File: f, Name: name, Extends: ext, Funcs: fns}
	f.Services = append(f.Services, s)
	return s
}
func (f *File) Include(path string, inc *File) {
	f.Includes = append(f.Includes, &Include{Path: path, F: inc})
}

// Files returns main + transitive includes (main first, deterministic order).
func (p *Program) Files() []*File {
	var out []*File
	seen := map[*File]bool{}
	var walk func(f *File)
	walk = func(f *File) {
		if seen[f] {
			return
		}
		seen[f] = true
		out = append(out, f)
		for _, i := range f.Includes {
			walk(i.F)
		}
	}
	walk(p.Main)
	return out
}

// IncludesMap is the `includes` argument of NewDescritorFromContent.
func (p *Program) IncludesMap() map[string]string {
	m := map[string]string{}
	for _, f := range p.Files()[1:] {
		m[f.Path] = f.Render()
	}
	return m
}

// prefix under which definitions of file g are visible in file f ("" if f == g).
func (f *File) prefixOf(g *File) string {
	if f == g {
		return ""
	}
	for _, i := range f.Includes {
		if i.F == g {
			b := filepath.Base(i.Path)
			return strings.TrimSuffix(b, ".thrift") + "."
		}
	}
	panic(fmt.Sprintf("idlref: %s does not include %s", f.Path, g.Path))
}

// TypeText renders a type reference as seen from file f.
func (f *File) TypeText(t *TRef) string {
	switch t.K {
	case List:
		return "list<" + f.TypeText(t.Elem) + ">"
	case Set:
		return "set<" + f.TypeText(t.Elem) + ">"
	case Map:
		return "map<" + f.TypeText(t.Key) + "," + f.TypeText(t.Elem) + ">"
	case StructK:
		return f.prefixOf(t.S.File) + t.S.Name
	case EnumK:
		return f.prefixOf(t.E.File) + t.E.Name
	case TypedefK:
		return f.prefixOf(t.TD.File) + t.TD.Name
	}
	return kindText[t.K]
}

func quote(s string) string {
	if !strings.Contains(s, `"`) {
		return `"` + s + `"`
	}
	if !strings.Contains(s, `'`) {
		return `'` + s + `'`
	}
	panic("idlref: literal with both quote kinds")
}

func (f *File) litText(l *Lit) string {
	switch l.K {
	case LInt:
		return fmt.Sprint(l.Int)
	case LDouble:
		return l.Text
	case LString:
		return quote(l.Text)
	case LIdent:
		return l.Text
	case LConst:
		return f.prefixOf(l.C.File) + l.C.Name
	case LEnum:
		return f.prefixOf(l.E.File) + l.E.Name + "." + l.EV
	}
	panic("bad lit")
}

func annosText(as []Anno) string {
	if len(as) == 0 {
		return ""
	}
	var p []string
	for _, a := range as {
		p = append(p, a.K+"="+quote(a.V))
	}
	return " (" + strings.Join(p, ", ") + ")"
}

// Render produces the IDL text of one file.
func (f *File) Render() string {
	var sb strings.Builder
	if f.NS != "" {
		fmt.Fprintf(&sb, "namespace go %s\n", f.NS)
	}
	for _, i := range f.Includes {
		fmt.Fprintf(&sb, "include %q\n", i.Path)
	}
	for _, e := range f.Enums {
		fmt.Fprintf(&sb, "enum %s {\n", e.Name)
		for _, v := range e.Vals {
			fmt.Fprintf(&sb, "  %s = %d,\n", v.Name, v.V)
		}
		sb.WriteString("}\n")
	}
	for _, t := range f.Typedefs {
		fmt.Fprintf(&sb, "typedef %s %s\n", f.TypeText(t.T), t.Name)
	}
	for _, c := range f.Consts {
		fmt.Fprintf(&sb, "const %s %s = %s\n", f.TypeText(c.T), c.Name, f.litText(c.V))
	}
	for _, s := range f.Structs {
		fmt.Fprintf(&sb, "%s %s {\n", s.Cat, s.Name)
		for _, fd := range s.Fields {
			req := ""
			switch fd.Req {
			case ReqRequired:
				req = "required "
			case ReqOptional:
				req = "optional "
			}
			def := ""
			if fd.Def != nil {
				def = " = " + f.litText(fd.Def)
			}
			fmt.Fprintf(&sb, "  %d: %s%s %s%s%s\n", fd.ID, req, f.TypeText(fd.T), fd.Name, def, annosText(fd.Annos))
		}
		sb.WriteString("}\n")
	}
	for _, s := range f.Services {
		ext := ""
		if s.Extends != nil {
			ext = " extends " + f.prefixOf(s.Extends.File) + s.Extends.Name
		}
		fmt.Fprintf(&sb, "service %s%s {\n", s.Name, ext)
		for _, fn := range s.Funcs {
			ow := ""
			if fn.Oneway {
				ow = "oneway "
			}
			th := ""
			if fn.Throw != nil {
				th = fmt.Sprintf(" throws (%d: %s %s)", fn.ThrowID, f.TypeText(fn.Throw), fn.ThrowName)
			}
			fmt.Fprintf(&sb, "  %s%s %s(%d: %s %s)%s%s\n", ow, f.TypeText(fn.Ret), fn.Name, fn.ArgID, f.TypeText(fn.Arg), fn.ArgName, th, annosText(fn.Annos))
		}
		sb.WriteString("}\n")
	}
	return sb.String()
}

// AllFuncs returns the functions a service exposes: its own, then the inherited ones (transitively).
func (s *Service) AllFuncs() []*Func {
	var out []*Func
	for x := s; x != nil; x = x.Extends {
		out = append(out, x.Funcs...)
	}
	return out
}

// LitValue resolves a literal to (int64 | float64 | string | bool).
func LitValue(l *Lit) interface{} {
	switch l.K {
	case LInt:
		return l.Int
	case LDouble:
		return l.F
	case LString:
		return l.Text
	case LIdent:
		return strings.ToLower(l.Text) == "true"
	case LConst:
		return LitValue(l.C.V)
	case LEnum:
		for _, v := range l.E.Vals {
			if v.Name == l.EV {
				return v.V
			}
		}
	}
	panic("idlref: unresolvable literal")
}

// ReachableStructs lists every struct-like of the program (all files), sorted by file path then name.
func (p *Program) AllStructs() []*Struct {
	var out []*Struct
	for _, f := range p.Files() {
		out = append(out, f.Structs...)
	}
	sort.SliceStable(out, func(i, j int) bool {
		if out[i].File.Path != out[j].File.Path {
			return out[i].File.Path < out[j].File.Path
		}
		return out[i].Name < out[j].Name
	})
	return out
}
