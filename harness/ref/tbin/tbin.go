// Package tbin is the boring reference model of Thrift binary protocol values:
// a tree, an encoder that records the byte span of every node, and a strict decoder.
// No unsafe, no dependency on dynamicgo.
package tbin

import (
	"bytes"
	"encoding/binary"
	"errors"
	"fmt"
	"math"
	"strings"
)

type Type byte

const (
	STOP   Type = 0
	BOOL   Type = 2
	BYTE   Type = 3
	DOUBLE Type = 4
	I16    Type = 6
	I32    Type = 8
	I64    Type = 10
	STRING Type = 11
	STRUCT Type = 12
	MAP    Type = 13
	SET    Type = 14
	LIST   Type = 15
)

func (t Type) Valid() bool {
	switch t {
	case BOOL, BYTE, DOUBLE, I16, I32, I64, STRING, STRUCT, MAP, SET, LIST:
		return true
	}
	return false
}

func (t Type) String() string {
	switch t {
	case STOP:
		return "stop"
	case BOOL:
		return "bool"
	case BYTE:
		return "byte"
	case DOUBLE:
		return "double"
	case I16:
		return "i16"
	case I32:
		return "i32"
	case I64:
		return "i64"
	case STRING:
		return "string"
	case STRUCT:
		return "struct"
	case MAP:
		return "map"
	case SET:
		return "set"
	case LIST:
		return "list"
	}
	return fmt.Sprintf("type%d", byte(t))
}

// Field of a struct value.
type Field struct {
	ID int16
	V  *Val
	// HdrOff is the offset of the 3-byte field header (type + id); V.Off is the value start.
	HdrOff int
}

// Val is a Thrift value. Spans (Off, End) are filled by Encode / Decode.
type Val struct {
	T  Type
	B  bool
	I  int64   // BYTE/I16/I32/I64
	F  float64 // DOUBLE
	S  []byte  // STRING
	ET Type    // LIST/SET element type, MAP value type
	KT Type    // MAP key type
	L  []*Val  // LIST/SET elements, MAP values
	K  []*Val  // MAP keys
	Fs []Field // STRUCT fields in wire order

	Off, End int // byte span [Off,End) in the encoding of the root
}

func Bool(b bool) *Val             { return &Val{T: BOOL, B: b} }
func Byte(i int8) *Val             { return &Val{T: BYTE, I: int64(i)} }
func I16v(i int16) *Val            { return &Val{T: I16, I: int64(i)} }
func I32v(i int32) *Val            { return &Val{T: I32, I: int64(i)} }
func I64v(i int64) *Val            { return &Val{T: I64, I: i} }
func Double(f float64) *Val        { return &Val{T: DOUBLE, F: f} }
func Str(s string) *Val            { return &Val{T: STRING, S: []byte(s)} }
func Bin(b []byte) *Val            { return &Val{T: STRING, S: b} }
func List(et Type, e ...*Val) *Val { return &Val{T: LIST, ET: et, L: e} }
func Set(et Type, e ...*Val) *Val  { return &Val{T: SET, ET: et, L: e} }
func Map(kt, vt Type, kv ...*Val) *Val {
	m := &Val{T: MAP, KT: kt, ET: vt}
	for i := 0; i+1 < len(kv); i += 2 {
		m.K = append(m.K, kv[i])
		m.L = append(m.L, kv[i+1])
	}
	return m
}
func Struct(f ...Field) *Val   { return &Val{T: STRUCT, Fs: f} }
func F(id int16, v *Val) Field { return Field{ID: id, V: v} }

// Encode appends the encoding of v to buf, recording spans relative to base offset 0 of buf.
func Encode(buf []byte, v *Val) []byte {
	v.Off = len(buf)
	switch v.T {
	case BOOL:
		if v.B {
			buf = append(buf, 1)
		} else {
			buf = append(buf, 0)
		}
	case BYTE:
		buf = append(buf, byte(v.I))
	case I16:
		buf = binary.BigEndian.AppendUint16(buf, uint16(v.I))
	case I32:
		buf = binary.BigEndian.AppendUint32(buf, uint32(v.I))
	case I64:
		buf = binary.BigEndian.AppendUint64(buf, uint64(v.I))
	case DOUBLE:
		buf = binary.BigEndian.AppendUint64(buf, math.Float64bits(v.F))
	case STRING:
		buf = binary.BigEndian.AppendUint32(buf, uint32(len(v.S)))
		buf = append(buf, v.S...)
	case LIST, SET:
		buf = append(buf, byte(v.ET))
		buf = binary.BigEndian.AppendUint32(buf, uint32(len(v.L)))
		for _, e := range v.L {
			buf = Encode(buf, e)
		}
	case MAP:
		buf = append(buf, byte(v.KT), byte(v.ET))
		buf = binary.BigEndian.AppendUint32(buf, uint32(len(v.L)))
		for i := range v.L {
			buf = Encode(buf, v.K[i])
			buf = Encode(buf, v.L[i])
		}
	case STRUCT:
		for i := range v.Fs {
			f := &v.Fs[i]
			f.HdrOff = len(buf)
			buf = append(buf, byte(f.V.T))
			buf = binary.BigEndian.AppendUint16(buf, uint16(f.ID))
			buf = Encode(buf, f.V)
		}
		buf = append(buf, 0)
	default:
		panic("tbin: bad type")
	}
	v.End = len(buf)
	return buf
}

// Bytes encodes v as a root value.
func Bytes(v *Val) []byte { return Encode(nil, v) }

var ErrShort = errors.New("tbin: short buffer")

// Decode strictly decodes one value of type t starting at off. Returns the value (with spans) and
// the offset after it. Strict: invalid type codes, negative sizes, bool bytes other than 0/1 are kept
// as-is only where the standard decoder accepts them (bool != 0 => true).
func Decode(b []byte, off int, t Type) (*Val, int, error) {
	return decode(b, off, t, 0)
}

func decode(b []byte, off int, t Type, depth int) (*Val, int, error) {
	if depth > 200 {
		return nil, off, errors.New("tbin: too deep")
	}
	v := &Val{T: t, Off: off}
	need := func(n int) error {
		if n < 0 || off+n > len(b) {
			return ErrShort
		}
		return nil
	}
	switch t {
	case BOOL:
		if err := need(1); err != nil {
			return nil, off, err
		}
		v.B = b[off] != 0
		off++
	case BYTE:
		if err := need(1); err != nil {
			return nil, off, err
		}
		v.I = int64(int8(b[off]))
		off++
	case I16:
		if err := need(2); err != nil {
			return nil, off, err
		}
		v.I = int64(int16(binary.BigEndian.Uint16(b[off:])))
		off += 2
	case I32:
		if err := need(4); err != nil {
			return nil, off, err
		}
		v.I = int64(int32(binary.BigEndian.Uint32(b[off:])))
		off += 4
	case I64:
		if err := need(8); err != nil {
			return nil, off, err
		}
		v.I = int64(binary.BigEndian.Uint64(b[off:]))
		off += 8
	case DOUBLE:
		if err := need(8); err != nil {
			return nil, off, err
		}
		v.F = math.Float64frombits(binary.BigEndian.Uint64(b[off:]))
		off += 8
	case STRING:
		if err := need(4); err != nil {
			return nil, off, err
		}
		n := int(int32(binary.BigEndian.Uint32(b[off:])))
		off += 4
		if n < 0 {
			return nil, off, errors.New("tbin: negative length")
		}
		if err := need(n); err != nil {
			return nil, off, err
		}
		v.S = append([]byte{}, b[off:off+n]...)
		off += n
	case LIST, SET:
		if err := need(5); err != nil {
			return nil, off, err
		}
		v.ET = Type(b[off])
		n := int(int32(binary.BigEndian.Uint32(b[off+1:])))
		off += 5
		if !v.ET.Valid() {
			return nil, off, fmt.Errorf("tbin: bad elem type %d", v.ET)
		}
		if n < 0 || n > len(b) {
			return nil, off, errors.New("tbin: bad size")
		}
		for i := 0; i < n; i++ {
			e, o, err := decode(b, off, v.ET, depth+1)
			if err != nil {
				return nil, off, err
			}
			v.L = append(v.L, e)
			off = o
		}
	case MAP:
		if err := need(6); err != nil {
			return nil, off, err
		}
		v.KT, v.ET = Type(b[off]), Type(b[off+1])
		n := int(int32(binary.BigEndian.Uint32(b[off+2:])))
		off += 6
		if !v.KT.Valid() || !v.ET.Valid() {
			return nil, off, fmt.Errorf("tbin: bad map types %d %d", v.KT, v.ET)
		}
		if n < 0 || n > len(b) {
			return nil, off, errors.New("tbin: bad size")
		}
		for i := 0; i < n; i++ {
			k, o, err := decode(b, off, v.KT, depth+1)
			if err != nil {
				return nil, off, err
			}
			e, o2, err := decode(b, o, v.ET, depth+1)
			if err != nil {
				return nil, off, err
			}
			v.K = append(v.K, k)
			v.L = append(v.L, e)
			off = o2
		}
	case STRUCT:
		for {
			if err := need(1); err != nil {
				return nil, off, err
			}
			ft := Type(b[off])
			if ft == STOP {
				off++
				break
			}
			if !ft.Valid() {
				return nil, off, fmt.Errorf("tbin: bad field type %d", ft)
			}
			if err := need(3); err != nil {
				return nil, off, err
			}
			id := int16(binary.BigEndian.Uint16(b[off+1:]))
			hdr := off
			off += 3
			fv, o, err := decode(b, off, ft, depth+1)
			if err != nil {
				return nil, off, err
			}
			v.Fs = append(v.Fs, Field{ID: id, V: fv, HdrOff: hdr})
			off = o
		}
	default:
		return nil, off, fmt.Errorf("tbin: bad type %d", t)
	}
	v.End = off
	return v, off, nil
}

// DecodeAll decodes a root value and requires that it consumes b exactly.
func DecodeAll(b []byte, t Type) (*Val, error) {
	v, o, err := Decode(b, 0, t)
	if err != nil {
		return nil, err
	}
	if o != len(b) {
		return nil, fmt.Errorf("tbin: %d trailing bytes", len(b)-o)
	}
	return v, nil
}

// Equal compares two values structurally (order-sensitive; doubles by bit pattern).
func Equal(a, b *Val) bool {
	if a == nil || b == nil {
		return a == b
	}
	if a.T != b.T {
		return false
	}
	switch a.T {
	case BOOL:
		return a.B == b.B
	case BYTE, I16, I32, I64:
		return a.I == b.I
	case DOUBLE:
		return math.Float64bits(a.F) == math.Float64bits(b.F)
	case STRING:
		return bytes.Equal(a.S, b.S)
	case LIST, SET:
		if a.ET != b.ET || len(a.L) != len(b.L) {
			return false
		}
		for i := range a.L {
			if !Equal(a.L[i], b.L[i]) {
				return false
			}
		}
		return true
	case MAP:
		if a.KT != b.KT || a.ET != b.ET || len(a.L) != len(b.L) {
			return false
		}
		for i := range a.L {
			if !Equal(a.K[i], b.K[i]) || !Equal(a.L[i], b.L[i]) {
				return false
			}
		}
		return true
	case STRUCT:
		if len(a.Fs) != len(b.Fs) {
			return false
		}
		for i := range a.Fs {
			if a.Fs[i].ID != b.Fs[i].ID || !Equal(a.Fs[i].V, b.Fs[i].V) {
				return false
			}
		}
		return true
	}
	return false
}

// Clone deep-copies a value (spans included).
func Clone(v *Val) *Val {
	if v == nil {
		return nil
	}
	c := *v
	if v.S != nil {
		c.S = append([]byte{}, v.S...)
	}
	c.L = nil
	c.K = nil
	c.Fs = nil
	for _, e := range v.L {
		c.L = append(c.L, Clone(e))
	}
	for _, e := range v.K {
		c.K = append(c.K, Clone(e))
	}
	for _, f := range v.Fs {
		c.Fs = append(c.Fs, Field{ID: f.ID, V: Clone(f.V), HdrOff: f.HdrOff})
	}
	return &c
}

// String renders a value compactly (for samples / replays).
func (v *Val) String() string {
	var sb strings.Builder
	v.str(&sb)
	return sb.String()
}

func (v *Val) str(sb *strings.Builder) {
	switch v.T {
	case BOOL:
		fmt.Fprintf(sb, "%v", v.B)
	case BYTE:
		fmt.Fprintf(sb, "%db", v.I)
	case I16:
		fmt.Fprintf(sb, "%ds", v.I)
	case I32:
		fmt.Fprintf(sb, "%d", v.I)
	case I64:
		fmt.Fprintf(sb, "%dL", v.I)
	case DOUBLE:
		fmt.Fprintf(sb, "%gd", v.F)
	case STRING:
		if len(v.S) > 24 {
			fmt.Fprintf(sb, "%q..(%d)", v.S[:24], len(v.S))
		} else {
			fmt.Fprintf(sb, "%q", v.S)
		}
	case LIST, SET:
		if v.T == SET {
			sb.WriteString("set")
		}
		fmt.Fprintf(sb, "<%s>[", v.ET)
		for i, e := range v.L {
			if i > 0 {
				sb.WriteByte(',')
			}
			e.str(sb)
		}
		sb.WriteByte(']')
	case MAP:
		fmt.Fprintf(sb, "<%s,%s>{", v.KT, v.ET)
		for i := range v.L {
			if i > 0 {
				sb.WriteByte(',')
			}
			v.K[i].str(sb)
			sb.WriteByte(':')
			v.L[i].str(sb)
		}
		sb.WriteByte('}')
	case STRUCT:
		sb.WriteByte('{')
		for i, f := range v.Fs {
			if i > 0 {
				sb.WriteByte(',')
			}
			fmt.Fprintf(sb, "%d:", f.ID)
			f.V.str(sb)
		}
		sb.WriteByte('}')
	}
}

// FieldByID returns the first field with that id (thrift readers take the first occurrence).
func (v *Val) FieldByID(id int16) *Val {
	for i := range v.Fs {
		if v.Fs[i].ID == id {
			return v.Fs[i].V
		}
	}
	return nil
}
