package tbin

import (
	"fmt"
	"math"
	"strings"
)

// Shape is a Thrift type shape (what an IDL declares).
type Shape struct {
	T      Type
	Binary bool   // STRING declared "binary"
	Elem   *Shape // LIST/SET element, MAP value
	Key    *Shape // MAP key
	Fields []SField
}

type SField struct {
	ID   int16
	Name string // "" => f<ID>
	S    *Shape
	Req  int // 0 default, 1 required, 2 optional
}

func (f SField) FName() string {
	if f.Name != "" {
		return f.Name
	}
	return fmt.Sprintf("f%d", f.ID)
}

func Sc(t Type) *Shape             { return &Shape{T: t} }
func BinS() *Shape                 { return &Shape{T: STRING, Binary: true} }
func ListS(e *Shape) *Shape        { return &Shape{T: LIST, Elem: e} }
func SetS(e *Shape) *Shape         { return &Shape{T: SET, Elem: e} }
func MapS(k, v *Shape) *Shape      { return &Shape{T: MAP, Key: k, Elem: v} }
func StructS(f ...SField) *Shape   { return &Shape{T: STRUCT, Fields: f} }
func SF(id int16, s *Shape) SField { return SField{ID: id, S: s} }

func (s *Shape) String() string {
	switch s.T {
	case LIST:
		return "list<" + s.Elem.String() + ">"
	case SET:
		return "set<" + s.Elem.String() + ">"
	case MAP:
		return "map<" + s.Key.String() + "," + s.Elem.String() + ">"
	case STRUCT:
		var p []string
		for _, f := range s.Fields {
			r := ""
			switch f.Req {
			case 1:
				r = "!"
			case 2:
				r = "?"
			}
			p = append(p, fmt.Sprintf("%d%s:%s", f.ID, r, f.S))
		}
		return "{" + strings.Join(p, ";") + "}"
	case STRING:
		if s.Binary {
			return "binary"
		}
		return "string"
	}
	return s.T.String()
}

// Depth is the container/struct nesting depth (scalars = 0).
func (s *Shape) Depth() int {
	d := 0
	switch s.T {
	case LIST, SET:
		d = 1 + s.Elem.Depth()
	case MAP:
		d = s.Elem.Depth()
		if k := s.Key.Depth(); k > d {
			d = k
		}
		d++
	case STRUCT:
		for _, f := range s.Fields {
			if x := f.S.Depth(); x > d {
				d = x
			}
		}
		d++
	}
	return d
}

// Scalars returns the 8 scalar shapes.
func Scalars() []*Shape {
	return []*Shape{Sc(BOOL), Sc(BYTE), Sc(I16), Sc(I32), Sc(I64), Sc(DOUBLE), Sc(STRING), BinS()}
}

// KeyScalars are the scalar map-key shapes of the alphabet.
func KeyScalars() []*Shape {
	return []*Shape{Sc(STRING), Sc(BYTE), Sc(I16), Sc(I32), Sc(I64), Sc(DOUBLE)}
}

// idSets are the field-id layouts used for multi-field structs (ascending, descending, mixed, high ids).
var idSets = [][]int16{{1, 2, 3}, {3, 2, 1}, {2, 255, 1}, {256, 257, 32767}, {32767, 1, 256}}

// Compose builds the shapes of depth d+1 from a list of element shapes:
// list/set of e, map<k,e> for every scalar key kind, map<struct,e>, single-field struct of e,
// and 3-field structs mixing e with scalars under each id layout.
func Compose(elems []*Shape, full bool) []*Shape {
	var out []*Shape
	for _, e := range elems {
		out = append(out, ListS(e), SetS(e))
		for _, k := range KeyScalars() {
			out = append(out, MapS(k, e))
		}
		out = append(out, StructS(SF(1, e)))
	}
	if full {
		for i, e := range elems {
			ids := idSets[i%len(idSets)]
			out = append(out, StructS(SF(ids[0], Sc(I32)), SF(ids[1], e), SF(ids[2], Sc(STRING))))
			// struct key map
			out = append(out, MapS(StructS(SF(1, Sc(I32)), SF(2, Sc(STRING))), e))
		}
	}
	return out
}

// T1 = shapes of depth exactly 1 over scalars.
func T1() []*Shape { return Compose(Scalars(), true) }

// T1Small = a representative subset of T1 used as element alphabet for depth 2
// (one of each constructor, with fixed- and variable-size elements).
func T1Small() []*Shape {
	return []*Shape{
		ListS(Sc(I32)), ListS(Sc(STRING)), SetS(Sc(I64)), ListS(Sc(BOOL)),
		MapS(Sc(STRING), Sc(I32)), MapS(Sc(I32), Sc(STRING)), MapS(Sc(I64), Sc(DOUBLE)), MapS(Sc(BYTE), Sc(I16)),
		MapS(Sc(DOUBLE), Sc(STRING)),
		StructS(SF(1, Sc(I32))), StructS(SF(1, Sc(STRING)), SF(2, Sc(I64))), StructS(SF(3, Sc(BYTE)), SF(1, BinS()), SF(300, Sc(DOUBLE))),
		StructS(),
	}
}

// T2 = depth-2 shapes: every constructor over T1Small.
func T2() []*Shape { return Compose(T1Small(), true) }

// T3Small = depth-3 shapes over a subset of T2 (used by skip / codec checks).
func T3Small() []*Shape {
	t2 := T2()
	var sub []*Shape
	for i := 0; i < len(t2); i += 7 {
		sub = append(sub, t2[i])
	}
	return Compose(sub, false)
}

// Gen builds position-distinct values: the i-th generated scalar of each kind differs from all others,
// so returning a wrong neighbour is visible.
type Gen struct {
	n int
	// Boundary: non-key scalars rotate through boundary alphabets (extreme ints, special doubles,
	// empty / SIMD-lane-sized / page-sized / non-UTF-8 strings) instead of the distinct counters.
	Boundary bool
	inKey    int
}

func (g *Gen) next() int { g.n++; return g.n }

var (
	bByte = []int8{-128, -1, 0, 127, 5}
	bI16  = []int16{-32768, -1, 0, 32767, 256}
	bI32  = []int32{-2147483648, -1, 0, 2147483647, 65536}
	bI64  = []int64{-9223372036854775808, -1, 0, 9223372036854775807, 1<<53 + 1, -(1 << 31) - 1}
	bF64  = []float64{math.Copysign(0, -1), math.NaN(), math.Inf(1), math.Inf(-1), 5e-324, math.MaxFloat64, 0.1, 1e21}
	bStr  = []string{"", "a", strings.Repeat("b", 15), strings.Repeat("c", 16), strings.Repeat("d", 17), strings.Repeat("e", 31), strings.Repeat("f", 32), strings.Repeat("g", 33),
		"\xff\xfe\x00", "\"\\\n\u2028é", strings.Repeat("h", 4095), strings.Repeat("i", 4096), strings.Repeat("j", 4097)}
)

func (g *Gen) boundary(s *Shape) *Val {
	k := g.next()
	switch s.T {
	case BOOL:
		return Bool(k%2 == 0)
	case BYTE:
		return Byte(bByte[k%len(bByte)])
	case I16:
		return I16v(bI16[k%len(bI16)])
	case I32:
		return I32v(bI32[k%len(bI32)])
	case I64:
		return I64v(bI64[k%len(bI64)])
	case DOUBLE:
		return Double(bF64[k%len(bF64)])
	case STRING:
		return Bin([]byte(bStr[k%len(bStr)]))
	}
	panic("not scalar")
}

// Build a value of shape s where every container has n elements and every struct has all fields present.
func (g *Gen) Build(s *Shape, n int) *Val {
	if g.Boundary && g.inKey == 0 && s.Depth() == 0 {
		return g.boundary(s)
	}
	switch s.T {
	case BOOL:
		return Bool(g.next()%2 == 1)
	case BYTE:
		return Byte(int8(g.next()*37 + 1)) // distinct for 256 consecutive counters, covers values >= 128
	case I16:
		return I16v(int16(1000 + g.next()))
	case I32:
		return I32v(int32(100000 + g.next()))
	case I64:
		return I64v(int64(1)<<40 + int64(g.next()))
	case DOUBLE:
		return Double(float64(g.next()) + 0.5)
	case STRING:
		k := g.next()
		if s.Binary {
			return Bin([]byte{byte(k), 0, 0xff, byte(k >> 8)})
		}
		// variable length so that neighbours have different sizes
		return Str("s" + fmt.Sprint(k) + strings.Repeat("x", k%3))
	case LIST, SET:
		v := &Val{T: s.T, ET: s.Elem.T}
		for i := 0; i < n; i++ {
			v.L = append(v.L, g.Build(s.Elem, n))
		}
		return v
	case MAP:
		v := &Val{T: MAP, KT: s.Key.T, ET: s.Elem.T}
		for i := 0; i < n; i++ {
			g.inKey++
			v.K = append(v.K, g.Build(s.Key, n))
			g.inKey--
			v.L = append(v.L, g.Build(s.Elem, n))
		}
		return v
	case STRUCT:
		v := &Val{T: STRUCT}
		for _, f := range s.Fields {
			v.Fs = append(v.Fs, Field{ID: f.ID, V: g.Build(f.S, n)})
		}
		return v
	}
	panic("bad shape")
}

// IDL renders a thrift IDL whose struct Root has field 1 of the given shape (or is the shape itself
// if it is a struct and wrap is false). Returns the IDL text and the root struct name.
func IDL(s *Shape, wrap bool) string {
	var defs []string
	names := map[*Shape]string{}
	var tname func(s *Shape) string
	tname = func(s *Shape) string {
		switch s.T {
		case BOOL:
			return "bool"
		case BYTE:
			return "byte"
		case I16:
			return "i16"
		case I32:
			return "i32"
		case I64:
			return "i64"
		case DOUBLE:
			return "double"
		case STRING:
			if s.Binary {
				return "binary"
			}
			return "string"
		case LIST:
			return "list<" + tname(s.Elem) + ">"
		case SET:
			return "set<" + tname(s.Elem) + ">"
		case MAP:
			return "map<" + tname(s.Key) + "," + tname(s.Elem) + ">"
		case STRUCT:
			if n, ok := names[s]; ok {
				return n
			}
			n := fmt.Sprintf("S%d", len(names))
			names[s] = n
			var sb strings.Builder
			var body []string
			for _, f := range s.Fields {
				r := ""
				switch f.Req {
				case 1:
					r = "required "
				case 2:
					r = "optional "
				}
				body = append(body, fmt.Sprintf("  %d: %s%s %s", f.ID, r, tname(f.S), f.FName()))
			}
			fmt.Fprintf(&sb, "struct %s {\n%s\n}\n", n, strings.Join(body, "\n"))
			defs = append(defs, sb.String())
			return n
		}
		panic("bad shape")
	}
	root := ""
	if s.T == STRUCT && !wrap {
		root = tname(s)
	} else {
		t := tname(s)
		defs = append(defs, fmt.Sprintf("struct Root {\n  1: %s f1\n}\n", t))
		root = "Root"
	}
	return "namespace go verif\n" + strings.Join(defs, "") + fmt.Sprintf("service Svc {\n  %s M(1: %s req)\n}\n", root, root)
}

// IDLRoots renders one IDL with a wrapper struct Root<i> {1: <shape i> f1} per root and a service with
// one method M<i>(1: Root<i> req) per root. Sub-shapes shared BY POINTER between roots are declared once,
// so the parsed descriptors of the roots share those sub-descriptors.
func IDLRoots(roots []*Shape) string {
	var defs []string
	names := map[*Shape]string{}
	var tname func(s *Shape) string
	tname = func(s *Shape) string {
		switch s.T {
		case BOOL:
			return "bool"
		case BYTE:
			return "byte"
		case I16:
			return "i16"
		case I32:
			return "i32"
		case I64:
			return "i64"
		case DOUBLE:
			return "double"
		case STRING:
			if s.Binary {
				return "binary"
			}
			return "string"
		case LIST:
			return "list<" + tname(s.Elem) + ">"
		case SET:
			return "set<" + tname(s.Elem) + ">"
		case MAP:
			return "map<" + tname(s.Key) + "," + tname(s.Elem) + ">"
		case STRUCT:
			if n, ok := names[s]; ok {
				return n
			}
			n := fmt.Sprintf("S%d", len(names))
			names[s] = n
			var body []string
			for _, f := range s.Fields {
				r := ""
				switch f.Req {
				case 1:
					r = "required "
				case 2:
					r = "optional "
				}
				body = append(body, fmt.Sprintf("  %d: %s%s %s", f.ID, r, tname(f.S), f.FName()))
			}
			defs = append(defs, fmt.Sprintf("struct %s {\n%s\n}\n", n, strings.Join(body, "\n")))
			return n
		}
		panic("bad shape")
	}
	var methods []string
	for i, r := range roots {
		t := tname(r)
		defs = append(defs, fmt.Sprintf("struct Root%d {\n  1: %s f1\n}\n", i, t))
		methods = append(methods, fmt.Sprintf("  void M%d(1: Root%d req)", i, i)) // void: a struct response would re-parse the shared structs for the Response target
	}
	return "namespace go verif\n" + strings.Join(defs, "") + "service Svc {\n" + strings.Join(methods, "\n") + "\n}\n"
}

// DropInLater makes container elements heterogeneous: element 0 of every list / set / map stays complete, every
// later element loses the first (or last) field of each struct it contains. Per-element state of an
// implementation (requiredness bitmaps, cursors) must not survive from one element to the next.
func DropInLater(v *Val, first bool) { dropInLater(v, first, false) }

func dropInLater(v *Val, first, drop bool) {
	if v.T == STRUCT && len(v.Fs) > 0 && drop {
		if first {
			v.Fs = v.Fs[1:]
		} else {
			v.Fs = v.Fs[:len(v.Fs)-1]
		}
	}
	for i, e := range v.L {
		dropInLater(e, first, drop || i > 0)
	}
	for i, e := range v.K {
		dropInLater(e, first, drop || i > 0)
	}
	for _, f := range v.Fs {
		dropInLater(f.V, first, drop)
	}
}

// HasStructInContainer: does the shape hold a struct as list / set element or map key / value (at any depth)?
func HasStructInContainer(s *Shape) bool { return hasStructIn(s, false) }

func hasStructIn(s *Shape, inC bool) bool {
	if s == nil {
		return false
	}
	if s.T == STRUCT && inC {
		return true
	}
	c := inC || s.T == LIST || s.T == SET || s.T == MAP
	if hasStructIn(s.Elem, c) || hasStructIn(s.Key, c) {
		return true
	}
	for _, f := range s.Fields {
		if hasStructIn(f.S, inC) {
			return true
		}
	}
	return false
}
