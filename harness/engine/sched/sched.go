// Package sched is a cooperative scheduler + stateless DFS explorer with preemption bounding
// (iterative context bounding, Musuvathi & Qadeer). Threads are goroutines that run one at a time;
// every hooked operation (vsync.Pool Get / Put / after-Put, and G-points) calls Point(), which hands control
// back to the scheduler. An execution is identified by its sequence of choices; the explorer replays a
// prefix and takes choice 0 afterwards.
package sched

import (
	"fmt"
	"runtime/debug"
)

// PointInfo is one scheduling point of an execution.
type PointInfo struct {
	Enabled        []int // thread ids in canonical order: running thread first if still enabled, then ascending
	RunningEnabled bool  // whether the thread that ran before this point can continue
	Chosen         int   // index into Enabled
	Label          string
}

type thread struct {
	id     int
	fn     func()
	resume chan struct{}
	done   bool
	panicV interface{}
	stack  string
}

type event struct {
	tid   int
	done  bool
	label string
}

// Exec is one controlled execution.
type Exec struct {
	threads []*thread
	events  chan event
	cur     int
	Points  []PointInfo
	Choices []int
	Steps   int
	Err     error // divergence / horizon errors
}

// current execution (one at a time per process)
var active *Exec

// Point is called by hooked operations on the running thread. Outside an execution it is a no-op.
func Point(label string) {
	e := active
	if e == nil {
		return
	}
	t := e.threads[e.cur]
	e.events <- event{tid: t.id, label: label}
	<-t.resume
}

// Active tells whether a controlled execution is running.
func Active() bool { return active != nil }

// Cur is the id of the running thread (-1 outside an execution).
func Cur() int {
	if active == nil {
		return -1
	}
	return active.cur
}

const horizon = 100000

// Run executes bodies under the scheduler following prefix (choice indexes); after the prefix choice 0.
// A prefix choice out of range is a divergence (hard error).
func Run(bodies []func(), prefix []int) *Exec {
	e := &Exec{events: make(chan event)}
	for i, b := range bodies {
		e.threads = append(e.threads, &thread{id: i, fn: b, resume: make(chan struct{})})
	}
	active = e
	defer func() { active = nil }()
	started := make([]bool, len(bodies))
	running := -1 // thread that ran last
	var lastLabel string
	for {
		// enabled threads
		var enabled []int
		runningEnabled := running >= 0 && !e.threads[running].done
		if runningEnabled {
			enabled = append(enabled, running)
		}
		for _, t := range e.threads {
			if !t.done && t.id != running {
				enabled = append(enabled, t.id)
			}
		}
		if len(enabled) == 0 {
			break
		}
		choice := 0
		if len(e.Points) < len(prefix) {
			choice = prefix[len(e.Points)]
			if choice < 0 || choice >= len(enabled) {
				e.Err = fmt.Errorf("divergence while replaying prefix: point %d has %d enabled threads, prefix wants %d", len(e.Points), len(enabled), choice)
				// drain: let everything run to completion with choice 0
				choice = 0
			}
		}
		e.Points = append(e.Points, PointInfo{Enabled: enabled, RunningEnabled: runningEnabled, Chosen: choice, Label: lastLabel})
		e.Choices = append(e.Choices, choice)
		tid := enabled[choice]
		t := e.threads[tid]
		e.cur = tid
		if !started[tid] {
			started[tid] = true
			go func(t *thread) {
				defer func() {
					if r := recover(); r != nil {
						t.panicV = r
						t.stack = string(debug.Stack())
					}
					e.events <- event{tid: t.id, done: true}
				}()
				<-t.resume
				t.fn()
			}(t)
		}
		t.resume <- struct{}{}
		ev := <-e.events
		e.Steps++
		if ev.done {
			t.done = true
		}
		lastLabel = fmt.Sprintf("t%d:%s", ev.tid, ev.label)
		running = tid
		if e.Steps > horizon {
			e.Err = fmt.Errorf("step horizon %d exceeded", horizon)
			break
		}
	}
	return e
}

// PanicOf returns the panic value of thread i ("" if none).
func (e *Exec) PanicOf(i int) (string, string) {
	if e.threads[i].panicV == nil {
		return "", ""
	}
	return fmt.Sprint(e.threads[i].panicV), e.threads[i].stack
}

// preemptionsBefore counts the preemptions among the first i choices.
func (e *Exec) preemptionsBefore(i int) int {
	n := 0
	for k := 0; k < i; k++ {
		p := e.Points[k]
		if p.RunningEnabled && p.Chosen != 0 {
			n++
		}
	}
	return n
}

// Stats of an exploration.
type Stats struct {
	Executions int64
	Points     int64
	MaxPoints  int
	Bound      int
	Capped     bool
}

// Explore enumerates every execution of bodies with at most bound preemptions (bound<0: unbounded),
// calling check on each. mk must return fresh bodies for every execution (state is rebuilt by reset).
// It stops early when check returns false or maxExec is reached (Capped).
func Explore(mk func() []func(), bound int, maxExec int64, check func(e *Exec) bool) Stats {
	st := Stats{Bound: bound}
	var rec func(prefix []int) bool
	rec = func(prefix []int) bool {
		if maxExec > 0 && st.Executions >= maxExec {
			st.Capped = true
			return false
		}
		x := Run(mk(), prefix)
		st.Executions++
		st.Points += int64(len(x.Points))
		if len(x.Points) > st.MaxPoints {
			st.MaxPoints = len(x.Points)
		}
		if !check(x) {
			return false
		}
		for i := len(prefix); i < len(x.Points); i++ {
			p := x.Points[i]
			cost := x.preemptionsBefore(i)
			if p.RunningEnabled {
				cost++ // switching away from a runnable thread is a preemption
			}
			if bound >= 0 && cost > bound {
				continue
			}
			for alt := 1; alt < len(p.Enabled); alt++ {
				np := append(append([]int{}, x.Choices[:i]...), alt)
				if !rec(np) {
					return false
				}
			}
		}
		return true
	}
	rec(nil)
	return st
}
