package core

import (
	"bufio"
	"encoding/binary"
	"encoding/json"
	"fmt"
	"hash/fnv"
	"os"
	"runtime"
	"runtime/debug"
	"strconv"
	"strings"
	"sync/atomic"
	"syscall"
	"time"
	"unsafe"
)

// message from worker to parent (one JSON object per line)
type wmsg struct {
	T        string            `json:"t"` // "viol" | "done"
	G        int               `json:"g"`
	I        int64             `json:"i,omitempty"`
	Sig      string            `json:"sig,omitempty"`
	Detail   string            `json:"detail,omitempty"`
	Desc     json.RawMessage   `json:"desc,omitempty"`
	N        int64             `json:"n,omitempty"`        // occurrences of sig in this group (on done: per sig)
	Evals    int64             `json:"evals,omitempty"`    // cases run
	Distinct int64             `json:"distinct,omitempty"` // distinct non-trivial keys in this group
	Classes  map[string]int64  `json:"classes,omitempty"`
	Counts   map[string]int64  `json:"counts,omitempty"`
	SigN     map[string]int64  `json:"sign,omitempty"`
	Samples  []json.RawMessage `json:"samples,omitempty"`
	Complete bool              `json:"complete,omitempty"`
	NextI    int64             `json:"nexti,omitempty"`
}

type heartbeat struct {
	mem []byte
}

func openHB(path string, create bool) (*heartbeat, error) {
	flags := os.O_RDWR
	if create {
		flags |= os.O_CREATE | os.O_TRUNC
	}
	f, err := os.OpenFile(path, flags, 0600)
	if err != nil {
		return nil, err
	}
	defer f.Close()
	if create {
		if err := f.Truncate(4096); err != nil {
			return nil, err
		}
	}
	m, err := syscall.Mmap(int(f.Fd()), 0, 4096, syscall.PROT_READ|syscall.PROT_WRITE, syscall.MAP_SHARED)
	if err != nil {
		return nil, err
	}
	return &heartbeat{mem: m}, nil
}
func (h *heartbeat) set(g int, i int64) {
	atomic.StoreInt64((*int64)(unsafe.Pointer(&h.mem[0])), int64(g))
	atomic.StoreInt64((*int64)(unsafe.Pointer(&h.mem[8])), i)
	atomic.AddInt64((*int64)(unsafe.Pointer(&h.mem[16])), 1)
}
func (h *heartbeat) get() (g int, i int64, ctr int64) {
	g = int(atomic.LoadInt64((*int64)(unsafe.Pointer(&h.mem[0]))))
	i = atomic.LoadInt64((*int64)(unsafe.Pointer(&h.mem[8])))
	ctr = atomic.LoadInt64((*int64)(unsafe.Pointer(&h.mem[16])))
	return
}
func (h *heartbeat) setTag(t string) {
	if len(t) > 200 {
		t = t[:200]
	}
	h.mem[64] = byte(len(t))
	copy(h.mem[65:], t)
}
func (h *heartbeat) tag() string {
	n := int(h.mem[64])
	return string(h.mem[65 : 65+n])
}
func (h *heartbeat) close() { syscall.Munmap(h.mem) }

const defaultMemLimit = 6 << 30

var workerHB *heartbeat

// Alive tells the parent's watchdog that a long-running case is making progress (e.g. while it waits
// for a subprocess). No-op outside a worker.
func Alive() {
	if workerHB != nil {
		atomic.AddInt64((*int64)(unsafe.Pointer(&workerHB.mem[16])), 1)
	}
}

// WorkerMain is the worker process entry: reads group assignments from stdin.
func WorkerMain(id, tier string, seed int64, hbPath string) {
	c := Lookup(id)
	if c == nil {
		fatalf(2, "unknown check %s", id)
	}
	lim := uint64(defaultMemLimit)
	if ml, ok := c.(MemLimiter); ok {
		lim = ml.MemLimit()
	}
	_ = syscall.Setrlimit(syscall.RLIMIT_AS, &syscall.Rlimit{Cur: lim, Max: lim})
	debug.SetPanicOnFault(true)
	debug.SetMaxStack(256 << 20)
	runtime.GOMAXPROCS(1)
	hb, err := openHB(hbPath, false)
	if err != nil {
		fatalf(2, "heartbeat: %v", err)
	}
	workerHB = hb
	out := bufio.NewWriterSize(os.Stdout, 1<<16)
	enc := json.NewEncoder(out)
	in := bufio.NewScanner(os.Stdin)
	for in.Scan() {
		f := strings.Fields(in.Text())
		if len(f) == 0 {
			continue
		}
		if f[0] == "q" {
			break
		}
		// g <group> <from> <deadlineUnixSec> [only|upto]
		//   only: run case <from> alone; upto: run cases 0..<from> in order, report case <from> only
		g, _ := strconv.Atoi(f[1])
		from, _ := strconv.ParseInt(f[2], 10, 64)
		dl, _ := strconv.ParseInt(f[3], 10, 64)
		mode := ""
		if len(f) > 4 {
			mode = f[4]
		}
		runGroup(c, tier, seed, g, from, dl, mode, hb, enc, out)
		out.Flush()
	}
}

func runGroup(c Check, tier string, seed int64, g int, from, deadline int64, mode string, hb *heartbeat, enc *json.Encoder, out *bufio.Writer) {
	only := mode == "only"
	target := int64(-1)
	if mode == "upto" {
		target, from = from, 0
	}
	done := wmsg{T: "done", G: g, Classes: map[string]int64{}, Counts: map[string]int64{}, SigN: map[string]int64{}, Complete: true}
	keys := map[uint64]struct{}{}
	var idx int64 = -1
	c.Enumerate(tier, seed, g, func(cs Case) bool {
		idx++
		if idx < from {
			return true
		}
		if deadline > 0 && idx&0xff == 0 && time.Now().Unix() > deadline {
			done.Complete = false
			done.NextI = idx
			return false
		}
		hb.setTag(cs.Tag)
		hb.set(g, idx)
		var res Result
		pi := Catch(func() { res = cs.Run() })
		if pi != nil {
			res.Class = "uncaught-panic"
			res.Viol = append(res.Viol, Violation{Sig: "uncaught|" + pi.Site + "|panic:" + PanicClass(pi.Val), Detail: pi.Val + "\n" + pi.Stack})
		}
		done.Evals++
		done.Classes[res.Class]++
		if res.Key != "" {
			h := fnv.New64a()
			h.Write([]byte(res.Key))
			keys[h.Sum64()] = struct{}{}
		}
		for k, v := range res.Counts {
			done.Counts[k] += v
		}
		if len(done.Samples) < 2 && cs.Desc != nil {
			if b, err := json.Marshal(cs.Desc()); err == nil {
				done.Samples = append(done.Samples, b)
			}
		}
		for _, v := range res.Viol {
			done.SigN[v.Sig]++
			if target >= 0 && idx != target {
				continue
			}
			if done.SigN[v.Sig] == 1 || only || target >= 0 {
				var d json.RawMessage
				if cs.Desc != nil {
					d, _ = json.Marshal(cs.Desc())
				}
				det := v.Detail
				if len(det) > 4000 {
					det = det[:4000] + "..."
				}
				enc.Encode(wmsg{T: "viol", G: g, I: idx, Sig: v.Sig, Detail: det, Desc: d})
				out.Flush()
			}
		}
		if only || (target >= 0 && idx >= target) {
			return false
		}
		return true
	})
	done.Distinct = int64(len(keys))
	if len(done.Classes) > 200 {
		// keep evidence small: collapse
		n := int64(len(done.Classes))
		done.Classes = map[string]int64{"(many classes)": n}
	}
	enc.Encode(done)
}

var _ = binary.LittleEndian
var _ = fmt.Sprint
