// Package core is the bounded-exhaustive exploration driver shared by all checks:
// a parent process that never executes dynamicgo code, worker subprocesses that do,
// crash/hang attribution, signatures, known findings, replays and evidence.
package core

import (
	"fmt"
	"os"
	"runtime"
	"runtime/debug"
	"sort"
	"strings"
)

// Violation is one observed contradiction of the property.
// Sig is the stable signature "site|trigger class|outcome class" (without the property id).
type Violation struct {
	Sig    string `json:"sig"`
	Detail string `json:"detail"`
}

// Result is what one explored case (execution / transition bundle) reports.
type Result struct {
	Class  string           // outcome class (for distinct-outcome counting; vacuity guard)
	Key    string           // identity of the case if non-trivial by the check's rule, "" if trivial
	Viol   []Violation      // violations seen in this case
	Counts map[string]int64 // extra measured counters (states, transitions, ...), summed
}

func (r *Result) Add(sig, format string, a ...interface{}) {
	r.Viol = append(r.Viol, Violation{Sig: sig, Detail: fmt.Sprintf(format, a...)})
}
func (r *Result) Count(k string, n int64) {
	if r.Counts == nil {
		r.Counts = map[string]int64{}
	}
	r.Counts[k] += n
}

// Case is one element of a check's finite scope.
type Case struct {
	Desc func() interface{} // JSON-marshalable description (for samples and replays)
	Run  func() Result
	Tag  string // trigger class known before running; used in crash/hang signatures
}

// Check is one property's alphabet + bound + oracle.
type Check interface {
	ID() string    // "C01"
	Level() string // MANIFEST/EVIDENCE category
	Rule() string  // enumeration + non-triviality rule (evidence.coverage.rule)
	// Groups partitions the scope; group g is enumerated (simplest-first) by Enumerate.
	Groups(tier string, seed int64) []string
	Enumerate(tier string, seed int64, group int, yield func(Case) bool)
}

// Optional interfaces.
type Assumer interface{ Assumptions() []string }
type SelfChecker interface{ SelfCheck() error } // reference-model self check; failure => exit 2
type Budgeter interface{ BudgetSeconds(tier string) int }
type Extra interface {
	ExtraCoverage(tier string, counts map[string]int64) map[string]interface{}
}

// HangConfirmer lets a check choose the time limit (seconds, > the 30 s watchdog) of the isolated
// re-run that confirms a hang; default is 4x the watchdog.
type HangConfirmer interface{ HangConfirmSeconds() int }

// DeathCapper lets a check whose scope legitimately kills many workers (C06) raise the cap.
type DeathCapper interface{ MaxWorkerDeaths() int }

// MemLimiter lets a check choose the worker address-space limit (bytes).
type MemLimiter interface{ MemLimit() uint64 }

var registry = map[string]Check{}

func Register(c Check) { registry[c.ID()] = c }
func Lookup(id string) Check {
	return registry[id]
}
func IDs() []string {
	var ids []string
	for k := range registry {
		ids = append(ids, k)
	}
	sort.Strings(ids)
	return ids
}

// PanicInfo describes a recovered panic: the value and the innermost dynamicgo frame.
type PanicInfo struct {
	Val   string
	Site  string // innermost function inside github.com/cloudwego/dynamicgo (short form)
	Stack string
}

// Catch runs f and returns a PanicInfo if it panicked (runtime faults included because the
// worker sets debug.SetPanicOnFault(true)).
func Catch(f func()) (pi *PanicInfo) {
	defer func() {
		if r := recover(); r != nil {
			pi = &PanicInfo{Val: fmt.Sprint(r)}
			pcs := make([]uintptr, 64)
			n := runtime.Callers(2, pcs)
			fr := runtime.CallersFrames(pcs[:n])
			var sb strings.Builder
			for {
				f, more := fr.Next()
				if strings.Contains(f.Function, "cloudwego/dynamicgo") && !strings.Contains(f.Function, "verifhook") && pi.Site == "" {
					pi.Site = shortFunc(f.Function)
				}
				fmt.Fprintf(&sb, "%s:%d %s\n", trimPath(f.File), f.Line, shortFunc(f.Function))
				if !more {
					break
				}
			}
			if pi.Site == "" {
				pi.Site = "outside-dynamicgo"
			}
			pi.Stack = sb.String()
		}
	}()
	f()
	return nil
}

func shortFunc(s string) string {
	s = strings.TrimPrefix(s, "github.com/cloudwego/dynamicgo/")
	return s
}
func trimPath(s string) string {
	if i := strings.Index(s, "/repo/"); i >= 0 {
		return s[i+6:]
	}
	return s
}

// PanicClass abstracts a panic value to a stable class (no addresses / indices).
func PanicClass(v string) string {
	switch {
	case strings.Contains(v, "index out of range"):
		return "index-out-of-range"
	case strings.Contains(v, "slice bounds out of range"):
		return "slice-bounds"
	case strings.Contains(v, "nil pointer") || strings.Contains(v, "invalid memory address"):
		return "nil-deref"
	case strings.Contains(v, "interface conversion"):
		return "iface-conversion"
	case strings.Contains(v, "unexpected fault address"):
		return "fault"
	case strings.Contains(v, "makeslice") || strings.Contains(v, "cap out of range") || strings.Contains(v, "len out of range"):
		return "makeslice"
	case strings.Contains(v, "divide"):
		return "divide"
	default:
		w := strings.Fields(v)
		if len(w) > 4 {
			w = w[:4]
		}
		// drop digits
		s := strings.Join(w, "_")
		var b strings.Builder
		for _, c := range s {
			if c >= '0' && c <= '9' {
				continue
			}
			b.WriteRune(c)
		}
		return b.String()
	}
}

func init() {
	debug.SetPanicOnFault(true)
}

func fatalf(code int, format string, a ...interface{}) {
	fmt.Fprintf(os.Stderr, format+"\n", a...)
	os.Exit(code)
}

// Confirmer lets a check lower the number of isolated re-runs (out of n) that must reproduce a signature. The
// default is n of n; a check may accept fewer only for observations that are sound on one occurrence.
type Confirmer interface {
	MinConfirmations(sig string, n int) int
}
