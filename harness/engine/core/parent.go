package core

import (
	"bufio"
	"bytes"
	"crypto/sha1"
	"encoding/hex"
	"encoding/json"
	"fmt"
	"io"
	"os"
	"os/exec"
	"path/filepath"
	"sort"
	"strconv"
	"strings"
	"sync"
	"time"
)

var VerifRoot = envRoot()

type finding struct {
	prop, sig, what string
}

func loadKnown() (find []finding, err error) {
	files := []string{filepath.Join(VerifRoot, "known-findings.txt")}
	more, _ := filepath.Glob(filepath.Join(VerifRoot, "known-findings.d", "*.txt"))
	sort.Strings(more)
	files = append(files, more...)
	for _, fn := range files {
		b, err := os.ReadFile(fn)
		if err != nil {
			if os.IsNotExist(err) {
				continue
			}
			return nil, err
		}
		for _, ln := range strings.Split(string(b), "\n") {
			ln = strings.TrimSpace(ln)
			if !strings.HasPrefix(ln, "finding:") {
				continue // "fixed:" lines and comments suppress nothing
			}
			rest := strings.TrimSpace(strings.TrimPrefix(ln, "finding:"))
			// property=<id> sig=<signature> :: <what>
			parts := strings.SplitN(rest, " :: ", 2)
			what := ""
			if len(parts) == 2 {
				what = parts[1]
			}
			hd := parts[0]
			if !strings.HasPrefix(hd, "property=") {
				continue
			}
			sp := strings.SplitN(hd, " sig=", 2)
			if len(sp) != 2 {
				continue
			}
			find = append(find, finding{prop: strings.TrimPrefix(sp[0], "property="), sig: strings.TrimSpace(sp[1]), what: what})
		}
	}
	return
}

type worker struct {
	id     int
	cmd    *exec.Cmd
	stdin  io.WriteCloser
	stderr *tailBuf
	hb     *heartbeat
	hbPath string
	group  int // current group, -1 if idle
	from   int64
	lastC  int64
	lastT  time.Time
	dead   bool
}

type tailBuf struct {
	mu  sync.Mutex
	buf []byte
}

func (t *tailBuf) Write(p []byte) (int, error) {
	t.mu.Lock()
	defer t.mu.Unlock()
	// keep head (first 6k: fatal error line + first goroutine) and tail
	if len(t.buf) < 12000 {
		t.buf = append(t.buf, p...)
	}
	return len(p), nil
}
func (t *tailBuf) String() string {
	t.mu.Lock()
	defer t.mu.Unlock()
	return string(t.buf)
}

type event struct {
	w   *worker
	msg *wmsg
	eof bool
	err error
}

type violRec struct {
	Sig    string
	G      int
	I      int64
	Detail string
	Desc   json.RawMessage
	N      int64
	Crash  bool
}

type runner struct {
	c        Check
	tier     string
	seed     int64
	groups   []string
	exe      string
	tmp      string
	nworkers int
	hangSecs int
	events   chan event
}

func (r *runner) spawn(id int) (*worker, error) {
	hbPath := filepath.Join(r.tmp, fmt.Sprintf("hb%d", id))
	hb, err := openHB(hbPath, true)
	if err != nil {
		return nil, err
	}
	cmd := exec.Command(r.exe, "worker", r.c.ID(), "--tier", r.tier, "--seed", strconv.FormatInt(r.seed, 10), "--hb", hbPath)
	cmd.Env = append(os.Environ(), "GOMAXPROCS=1", "GOTRACEBACK=single")
	stdin, err := cmd.StdinPipe()
	if err != nil {
		return nil, err
	}
	stdout, err := cmd.StdoutPipe()
	if err != nil {
		return nil, err
	}
	tb := &tailBuf{}
	cmd.Stderr = tb
	if err := cmd.Start(); err != nil {
		return nil, err
	}
	w := &worker{id: id, cmd: cmd, stdin: stdin, stderr: tb, hb: hb, hbPath: hbPath, group: -1, lastT: time.Now()}
	go func() {
		rd := bufio.NewReaderSize(stdout, 1<<20)
		for {
			line, err := rd.ReadBytes('\n')
			if len(line) > 0 {
				var m wmsg
				if e := json.Unmarshal(line, &m); e == nil {
					r.events <- event{w: w, msg: &m}
				}
			}
			if err != nil {
				cmd.Wait()
				r.events <- event{w: w, eof: true}
				return
			}
		}
	}()
	return w, nil
}

var _ = bytes.NewBuffer

func (r *runner) assign(w *worker, g int, from int64, deadline int64, only bool) {
	w.group, w.from = g, from
	_, _, w.lastC = w.hb.get()
	w.lastT = time.Now()
	s := fmt.Sprintf("g %d %d %d", g, from, deadline)
	if only {
		s += " only"
	}
	fmt.Fprintln(w.stdin, s)
}

func crashClass(stderr string, hang bool) string {
	switch {
	case hang:
		return "hang"
	case strings.Contains(stderr, "out of memory") || strings.Contains(stderr, "cannot allocate memory") || strings.Contains(stderr, "cannot reserve arena"):
		return "fatal-out-of-memory"
	case strings.Contains(stderr, "stack overflow") || strings.Contains(stderr, "stack size exceeds"):
		return "fatal-stack-overflow"
	case strings.Contains(stderr, "SIGSEGV") || strings.Contains(stderr, "unexpected signal") || strings.Contains(stderr, "SIGBUS"):
		return "fatal-signal"
	case strings.Contains(stderr, "concurrent map"):
		return "fatal-concurrent-map"
	case strings.Contains(stderr, "fatal error"):
		return "fatal-other"
	default:
		return "died"
	}
}

// run explores all groups; returns aggregate.
type aggregate struct {
	evals, distinct int64
	classes         map[string]int64
	counts          map[string]int64
	samples         []json.RawMessage
	viol            map[string]*violRec
	complete        bool
	groupsDone      int
	crashes         int
	hangs           int
	aborted         string
}

func (r *runner) run(deadline time.Time) (*aggregate, error) {
	r.events = make(chan event, 1024)
	agg := &aggregate{classes: map[string]int64{}, counts: map[string]int64{}, viol: map[string]*violRec{}, complete: true}
	type job struct {
		g    int
		from int64
	}
	var queue []job
	for g := range r.groups {
		queue = append(queue, job{g, 0})
	}
	var workers []*worker
	live := 0
	n := r.nworkers
	if n > len(queue) {
		n = len(queue)
	}
	nextID := 0
	startW := func() error {
		w, err := r.spawn(nextID)
		nextID++
		if err != nil {
			return err
		}
		workers = append(workers, w)
		live++
		return nil
	}
	for i := 0; i < n; i++ {
		if err := startW(); err != nil {
			return nil, err
		}
	}
	dl := deadline.Unix()
	feed := func(w *worker) {
		if len(queue) == 0 || time.Now().After(deadline) {
			if len(queue) > 0 {
				agg.complete = false
			}
			fmt.Fprintln(w.stdin, "q")
			w.stdin.Close()
			w.group = -1
			return
		}
		j := queue[0]
		queue = queue[1:]
		r.assign(w, j.g, j.from, dl, false)
	}
	for _, w := range workers {
		feed(w)
	}
	record := func(v *violRec) {
		old := agg.viol[v.Sig]
		if old == nil {
			agg.viol[v.Sig] = v
			return
		}
		n := old.N + v.N
		if v.G < old.G || (v.G == old.G && v.I < old.I) {
			*old = *v
		}
		old.N = n
	}
	tick := time.NewTicker(time.Second)
	defer tick.Stop()
	for live > 0 {
		select {
		case ev := <-r.events:
			w := ev.w
			if ev.eof {
				if w.dead {
					continue
				}
				w.dead = true
				live--
				w.hb.close()
				if w.group >= 0 {
					// died while running a case
					g, i, _ := func() (int, int64, int64) {
						h, err := openHB(w.hbPath, false)
						if err != nil {
							return w.group, w.from, 0
						}
						defer h.close()
						return h.get()
					}()
					if g != w.group { // died before first case of the group
						g, i = w.group, w.from-1
					}
					agg.crashes++
					if d := os.Getenv("VERIF_KEEP_STDERR"); d != "" {
						os.MkdirAll(d, 0755)
						os.WriteFile(filepath.Join(d, fmt.Sprintf("worker%d-g%d-i%d.stderr", w.id, g, i)), []byte(w.stderr.String()), 0644)
					}
					if i >= w.from {
						cls := crashClass(w.stderr.String(), false)
						record(&violRec{Sig: "crash|" + r.groups[g] + "|" + tagOf(w.hbPath) + "|" + cls, G: g, I: i, Detail: headTail(w.stderr.String()), N: 1, Crash: true})
					}
					queue = append([]job{{g, i + 1}}, queue...)
					if agg.crashes > r.maxDeaths() {
						// stop exploring: what was recorded so far is still reported (crashes are violations)
						agg.complete = false
						agg.aborted = fmt.Sprintf("exploration stopped after %d worker deaths", agg.crashes)
						queue = nil
					}
					if err := startW(); err != nil {
						return nil, err
					}
					feed(workers[len(workers)-1])
				}
				continue
			}
			m := ev.msg
			switch m.T {
			case "viol":
				record(&violRec{Sig: m.Sig, G: m.G, I: m.I, Detail: m.Detail, Desc: m.Desc, N: 0})
			case "done":
				agg.evals += m.Evals
				agg.distinct += m.Distinct
				for k, v := range m.Classes {
					agg.classes[k] += v
				}
				for k, v := range m.Counts {
					agg.counts[k] += v
				}
				for s, n := range m.SigN {
					if v := agg.viol[s]; v != nil {
						v.N += n
					}
				}
				if len(agg.samples) < 6 {
					agg.samples = append(agg.samples, m.Samples...)
				}
				if !m.Complete {
					agg.complete = false
				} else {
					agg.groupsDone++
				}
				w.group = -1
				feed(w)
			}
		case <-tick.C:
			for _, w := range workers {
				if w.dead || w.group < 0 {
					continue
				}
				_, _, c := w.hb.get()
				if c != w.lastC {
					w.lastC, w.lastT = c, time.Now()
					continue
				}
				if time.Since(w.lastT) > time.Duration(r.hangSecs)*time.Second {
					// hang: kill; attribute
					g, i, _ := w.hb.get()
					w.dead = true
					live--
					w.cmd.Process.Kill()
					agg.crashes++
					agg.hangs++
					if g == w.group && i >= w.from {
						record(&violRec{Sig: "crash|" + r.groups[g] + "|" + tagOf(w.hbPath) + "|hang", G: g, I: i, Detail: fmt.Sprintf("no progress for %ds", r.hangSecs), N: 1, Crash: true})
					} else {
						g, i = w.group, w.from-1
					}
					queue = append([]job{{g, i + 1}}, queue...)
					if agg.hangs > 8 {
						// every hang costs a full watchdog period: stop exploring, report what was found
						agg.complete = false
						agg.aborted = fmt.Sprintf("exploration stopped after %d hangs", agg.hangs)
						queue = nil
					}
					if err := startW(); err != nil {
						return nil, err
					}
					feed(workers[len(workers)-1])
				}
			}
		}
	}
	return agg, nil
}

func tagOf(hbPath string) string {
	h, err := openHB(hbPath, false)
	if err != nil {
		return ""
	}
	defer h.close()
	return h.tag()
}

func headTail(s string) string {
	if len(s) > 3000 {
		return s[:3000] + "\n..."
	}
	return s
}

// confirm re-runs one case n times in a fresh worker each and returns how many times sig was reproduced.
func (r *runner) confirm(v *violRec, n int) (ok int, desc json.RawMessage, tag string) {
	return r.confirmMode(v, n, "only")
}

// confirmMode: mode "only" runs the case alone in a fresh worker, "upto" runs the cases 0..I of its group
// in order in a fresh worker (the history the case had in the exploring worker) and judges case I.
func (r *runner) confirmMode(v *violRec, n int, mode string) (ok int, desc json.RawMessage, tag string) {
	for k := 0; k < n; k++ {
		sigs, d, crashed := r.runOneMode(v.G, v.I, mode)
		if d != nil {
			desc = d
		}
		if v.Crash {
			if crashed != "" && strings.HasSuffix(v.Sig, "|"+crashed) {
				ok++
			}
		} else {
			for _, s := range sigs {
				if s == v.Sig {
					ok++
					break
				}
			}
		}
	}
	return
}

// runOne runs a single case (g,i) in a fresh worker. Returns violated sigs, desc, and crash class ("" if none).
func (r *runner) runOne(g int, i int64) (sigs []string, desc json.RawMessage, crash string) {
	return r.runOneMode(g, i, "only")
}

func (r *runner) runOneMode(g int, i int64, mode string) (sigs []string, desc json.RawMessage, crash string) {
	hbPath := filepath.Join(r.tmp, "hbone")
	hb, err := openHB(hbPath, true)
	if err != nil {
		return nil, nil, ""
	}
	defer hb.close()
	cmd := exec.Command(r.exe, "worker", r.c.ID(), "--tier", r.tier, "--seed", strconv.FormatInt(r.seed, 10), "--hb", hbPath)
	cmd.Env = append(os.Environ(), "GOMAXPROCS=1", "GOTRACEBACK=single")
	cmd.Stdin = strings.NewReader(fmt.Sprintf("g %d %d 0 %s\nq\n", g, i, mode))
	var out bytes.Buffer
	tb := &tailBuf{}
	cmd.Stdout = &out
	cmd.Stderr = tb
	if err := cmd.Start(); err != nil {
		return nil, nil, ""
	}
	doneCh := make(chan error, 1)
	go func() { doneCh <- cmd.Wait() }()
	hang := false
	select {
	case <-doneCh:
	case <-time.After(time.Duration(r.hangConfirmSecs()) * time.Second * time.Duration(map[bool]int{false: 1, true: 10}[mode == "upto"])):
		hang = true
		cmd.Process.Kill()
		<-doneCh
	}
	gotDone := false
	for _, ln := range bytes.Split(out.Bytes(), []byte("\n")) {
		var m wmsg
		if json.Unmarshal(ln, &m) != nil {
			continue
		}
		if m.T == "viol" {
			sigs = append(sigs, m.Sig)
			desc = m.Desc
		}
		if m.T == "done" {
			gotDone = true
			if desc == nil && len(m.Samples) > 0 {
				desc = m.Samples[0]
			}
		}
	}
	if !gotDone {
		crash = crashClass(tb.String(), hang)
	}
	return
}

// hangConfirmSecs is the limit of the isolated confirmation run: 4x the watchdog, unless the check
// implements HangConfirmer (a check whose known findings include genuine infinite loops can bound the
// cost of re-confirming them on every run).
// maxDeaths: worker deaths (crashes / hangs) after which exploration stops (what was found is still reported).
func (r *runner) maxDeaths() int {
	if d, ok := r.c.(DeathCapper); ok {
		return d.MaxWorkerDeaths()
	}
	return 60
}

func (r *runner) hangConfirmSecs() int {
	if h, ok := r.c.(HangConfirmer); ok {
		if s := h.HangConfirmSeconds(); s > 0 {
			return s
		}
	}
	return 2 * r.hangSecs
}

func sigFile(sig string) string {
	h := sha1.Sum([]byte(sig))
	return hex.EncodeToString(h[:6])
}

type replayFile struct {
	Property string          `json:"property"`
	Tier     string          `json:"tier"`
	Seed     int64           `json:"seed"`
	Group    int             `json:"group"`
	GroupNm  string          `json:"group_name"`
	Index    int64           `json:"index"`
	Sig      string          `json:"sig"`
	Detail   string          `json:"detail"`
	Case     json.RawMessage `json:"case,omitempty"`
	Count    int64           `json:"occurrences"`
	How      string          `json:"how_to_replay"`
	History  bool            `json:"history_dependent,omitempty"` // replay runs cases 0..index of the group
}

// CheckMain is the parent entry. Returns the process exit code.
func CheckMain(id, tier string, seed int64) int {
	start := time.Now()
	c := Lookup(id)
	if c == nil {
		fmt.Fprintf(os.Stderr, "unknown check %s; have %v\n", id, IDs())
		return 2
	}
	if sc, ok := c.(SelfChecker); ok {
		if err := sc.SelfCheck(); err != nil {
			fmt.Fprintf(os.Stderr, "HARNESS-ERROR %s self-check of the reference model failed: %v\n", id, err)
			return 2
		}
	}
	known, err := loadKnown()
	if err != nil {
		fmt.Fprintf(os.Stderr, "known-findings: %v\n", err)
		return 2
	}
	exe, _ := os.Executable()
	tmp, err := os.MkdirTemp("", "verif-"+id+"-")
	if err != nil {
		fmt.Fprintln(os.Stderr, err)
		return 2
	}
	defer os.RemoveAll(tmp)
	nw := 16
	if s := os.Getenv("VERIF_WORKERS"); s != "" {
		nw, _ = strconv.Atoi(s)
	}
	budget := 240
	if tier == "thorough" {
		budget = 3600
	}
	if b, ok := c.(Budgeter); ok {
		budget = b.BudgetSeconds(tier)
	}
	if s := os.Getenv("VERIF_BUDGET_S"); s != "" {
		budget, _ = strconv.Atoi(s)
	}
	hang := 120 // seconds without any case progress before a worker is declared hung (cases take micro- to milliseconds)
	if s := os.Getenv("VERIF_HANG_S"); s != "" {
		hang, _ = strconv.Atoi(s)
	}
	r := &runner{c: c, tier: tier, seed: seed, groups: c.Groups(tier, seed), exe: exe, tmp: tmp, nworkers: nw, hangSecs: hang}
	if len(r.groups) == 0 {
		fmt.Fprintf(os.Stderr, "HARNESS-ERROR %s: empty scope\n", id)
		return 2
	}
	agg, err := r.run(start.Add(time.Duration(budget) * time.Second))
	if err != nil {
		fmt.Fprintf(os.Stderr, "HARNESS-ERROR %s: %v\n", id, err)
		return 2
	}
	// triage
	var sigs []string
	for s := range agg.viol {
		sigs = append(sigs, s)
	}
	sort.Strings(sigs)
	knownSet := map[string]finding{}
	for _, f := range known {
		if f.prop == id {
			knownSet[f.sig] = f
		}
	}
	exit := 0
	nviol := 0
	var knownHit, unknown []string
	os.MkdirAll(filepath.Join(VerifRoot, "replays", id), 0755)
	if old, _ := filepath.Glob(filepath.Join(VerifRoot, "replays", id, "*.json")); len(old) > 0 {
		for _, f := range old {
			os.Remove(f)
		}
	}
	flaky := 0
	slowCases := 0
	hangSigs := 0
	var skippedHangs []string
	for _, s := range sigs {
		v := agg.viol[s]
		_, isKnown := knownSet[s]
		nconf := 5
		if isKnown {
			nconf = 1
		}
		if v.Crash && strings.HasSuffix(s, "|hang") && !isKnown {
			// confirming a hang costs a full time limit per re-run: 2 re-runs, and at most 3 distinct hang
			// signatures per run are confirmed and reported (the rest are counted in the evidence)
			nconf = 2
			hangSigs++
			if hangSigs > 3 {
				skippedHangs = append(skippedHangs, s)
				continue
			}
		}
		ok, desc, _ := r.confirm(v, nconf)
		if v.Desc == nil {
			v.Desc = desc
		}
		if cf, isCf := c.(Confirmer); isCf && ok < nconf && ok >= cf.MinConfirmations(s, nconf) {
			// the check declares this kind of observation sound on a single occurrence (e.g. a report of the
			// race detector, which has no false positives but depends on the free-running schedule)
			ok = nconf
		}
		history := false
		if ok != nconf && !v.Crash {
			// not reproducible alone: does it depend on the calls made before it? Re-run the case's group from
			// its first case up to this one in a fresh worker, three times: if the signature comes back every
			// time, the library's answer for this input depends deterministically on the preceding calls
			// (state kept between calls - pools, caches), which is a violation of every per-call statement.
			if okH, descH, _ := r.confirmMode(v, 3, "upto"); okH == 3 {
				history = true
				ok = nconf
				if v.Desc == nil {
					v.Desc = descH
				}
			}
		}
		if ok == 0 && v.Crash && strings.HasSuffix(s, "|hang") {
			// the watchdog stopped the worker, but the same case runs to completion when it is alone: a slow case on a
			// loaded machine, not a hang. It is evaluated here once more, alone, so that nothing it has to say is lost.
			if sigs, _, crash := r.runOneMode(v.G, v.I, "only"); crash == "" && len(sigs) == 0 {
				slowCases++
				fmt.Fprintf(os.Stderr, "NOTE %s: group %d (%s) index %d exceeded the no-progress limit under load and completes without findings when run alone\n", id, v.G, r.groups[v.G], v.I)
				continue
			}
		}
		if ok != nconf {
			// not reproducible in isolation: harness nondeterminism, never a VIOLATION
			flaky++
			fmt.Fprintf(os.Stderr, "HARNESS-ERROR %s: sig %q at group %d (%s) index %d reproduced %d/%d times in isolation\n", id, s, v.G, r.groups[v.G], v.I, ok, nconf)
			continue
		}
		path := filepath.Join(VerifRoot, "replays", id, sigFile(s)+".json")
		rf := replayFile{Property: id, Tier: tier, Seed: seed, Group: v.G, GroupNm: r.groups[v.G], Index: v.I, Sig: s, Detail: v.Detail, Case: v.Desc, Count: v.N,
			How: fmt.Sprintf("cd /verif && ./run.sh replay %s", path)}
		if history {
			rf.History = true
			rf.Detail = fmt.Sprintf("HISTORY-DEPENDENT: not reproduced when the case runs alone in a fresh process, reproduced 3/3 times when cases 0..%d of group %q run before it in the same process (state kept by the library between calls)\n", v.I-1, r.groups[v.G]) + rf.Detail
			v.Detail = rf.Detail
		}
		b, _ := json.MarshalIndent(rf, "", " ")
		os.WriteFile(path, b, 0644)
		if isKnown {
			knownHit = append(knownHit, s)
			fmt.Printf("KNOWN-FINDING: property=%s %s [sig=%s occurrences=%d]\n", id, knownSet[s].what, s, v.N)
		} else {
			unknown = append(unknown, s)
			nviol++
			exit = 1
			fmt.Printf("VIOLATION property=%s replay=%s\n", id, path)
			fmt.Printf("  sig=%s occurrences=%d group=%s index=%d\n  %s\n", s, v.N, r.groups[v.G], v.I, firstLines(v.Detail, 6))
		}
	}
	if flaky > 0 && exit == 0 {
		exit = 2
	}
	// evidence
	wall := time.Since(start).Seconds()
	cov := map[string]interface{}{
		"evaluations":         agg.evals,
		"distinct_nontrivial": agg.distinct,
		"rule":                c.Rule(),
		"exhaustive":          agg.complete,
		"groups":              len(r.groups),
		"groups_completed":    agg.groupsDone,
		"distinct_outcomes":   len(agg.classes),
		"outcome_classes":     topClasses(agg.classes, 40),
		"worker_deaths":       agg.crashes,
		"slow_cases_rerun":    slowCases,
		"known_findings_hit":  knownHit,
		"unknown_violations":  unknown,
		"budget_s":            budget,
	}
	if len(skippedHangs) > 0 {
		cov["further_hang_signatures_not_confirmed"] = skippedHangs
	}
	var samples []interface{}
	for _, s := range agg.samples {
		var x interface{}
		json.Unmarshal(s, &x)
		samples = append(samples, x)
	}
	if len(samples) == 0 {
		samples = append(samples, "no sample recorded")
	}
	cov["samples"] = samples
	for k, v := range agg.counts {
		cov[k] = v
	}
	if ex, ok := c.(Extra); ok {
		for k, v := range ex.ExtraCoverage(tier, agg.counts) {
			cov[k] = v
		}
	}
	if agg.aborted != "" {
		cov["aborted"] = agg.aborted
	}
	if !agg.complete {
		cov["cap"] = fmt.Sprintf("internal deadline of %ds reached: %d of %d groups fully enumerated (groups are ordered simplest-first; unfinished groups report the prefix they covered)", budget, agg.groupsDone, len(r.groups))
	}
	ev := map[string]interface{}{
		"property_id": id,
		"tier":        tier,
		"seed":        seed,
		"level":       c.Level(),
		"coverage":    cov,
		"wall_s":      wall,
		"violations":  nviol,
	}
	if a, ok := c.(Assumer); ok {
		ev["assumptions"] = a.Assumptions()
	}
	os.MkdirAll(filepath.Join(VerifRoot, "evidence"), 0755)
	b, _ := json.MarshalIndent(ev, "", " ")
	if err := os.WriteFile(filepath.Join(VerifRoot, "evidence", id+".json"), b, 0644); err != nil {
		fmt.Fprintln(os.Stderr, err)
		return 2
	}
	fmt.Printf("%s tier=%s evaluations=%d distinct_nontrivial=%d outcomes=%d groups=%d/%d exhaustive=%v known=%d violations=%d wall=%.1fs\n",
		id, tier, agg.evals, agg.distinct, len(agg.classes), agg.groupsDone, len(r.groups), agg.complete, len(knownHit), nviol, wall)
	return exit
}

func firstLines(s string, n int) string {
	l := strings.Split(s, "\n")
	if len(l) > n {
		l = l[:n]
	}
	return strings.Join(l, "\n  ")
}

func topClasses(m map[string]int64, n int) map[string]int64 {
	type kv struct {
		k string
		v int64
	}
	var a []kv
	for k, v := range m {
		a = append(a, kv{k, v})
	}
	sort.Slice(a, func(i, j int) bool { return a[i].v > a[j].v })
	out := map[string]int64{}
	for i, x := range a {
		if i >= n {
			break
		}
		out[x.k] = x.v
	}
	return out
}

// ReplayMain re-runs the case stored in a replay file, prints the outcome. Exit 1 if the violation reproduces.
func ReplayMain(path string) int {
	b, err := os.ReadFile(path)
	if err != nil {
		fmt.Fprintln(os.Stderr, err)
		return 2
	}
	var rf replayFile
	if err := json.Unmarshal(b, &rf); err != nil {
		fmt.Fprintln(os.Stderr, err)
		return 2
	}
	c := Lookup(rf.Property)
	if c == nil {
		return 2
	}
	exe, _ := os.Executable()
	tmp, _ := os.MkdirTemp("", "verif-replay-")
	defer os.RemoveAll(tmp)
	r := &runner{c: c, tier: rf.Tier, seed: rf.Seed, groups: c.Groups(rf.Tier, rf.Seed), exe: exe, tmp: tmp, hangSecs: 120}
	mode := "only"
	if rf.History {
		mode = "upto"
		fmt.Printf("history-dependent: running cases 0..%d of group %s\n", rf.Index, rf.GroupNm)
	}
	sigs, desc, crash := r.runOneMode(rf.Group, rf.Index, mode)
	fmt.Printf("case: %s\n", string(desc))
	if rf.Case != nil && desc != nil && !jsonEqual(rf.Case, desc) {
		fmt.Printf("NOTE: the enumeration changed since this replay was recorded (stored case differs)\n stored: %s\n", string(rf.Case))
	}
	rep := false
	for _, s := range sigs {
		fmt.Printf("violation sig=%s\n", s)
		if s == rf.Sig {
			rep = true
		}
	}
	if crash != "" {
		fmt.Printf("worker died: %s\n", crash)
		if strings.HasSuffix(rf.Sig, "|"+crash) {
			rep = true
		}
	}
	if rep {
		fmt.Printf("REPRODUCED %s\n", rf.Sig)
		return 1
	}
	fmt.Printf("not reproduced\n")
	return 0
}

func jsonEqual(a, b json.RawMessage) bool {
	var x, y interface{}
	if json.Unmarshal(a, &x) != nil || json.Unmarshal(b, &y) != nil {
		return false
	}
	xa, _ := json.Marshal(x)
	ya, _ := json.Marshal(y)
	return bytes.Equal(xa, ya)
}

func envRoot() string {
	if r := os.Getenv("VERIF_ROOT"); r != "" {
		return r
	}
	return "/verif"
}
