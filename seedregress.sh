#!/bin/bash
# usage: seedregress.sh <out-file> <PROP>... : re-run the quick check of each PROP against every stored seed of that property
# (seeded/<PROP>-*), in a scratch worktree of /verif's HEAD under /tmp so that /verif/bin and /verif/evidence stay untouched.
# One line per seed in <out-file>; a seed is "caught" when the check exits 1 with VIOLATION lines.
export GOFLAGS=-mod=mod GOPROXY=off GOSUMDB=off GOTOOLCHAIN=local GOCACHE=/verif/.gocache
out=$1; shift
V=/tmp/vreg-$$
git -C /verif worktree add -q --detach $V HEAD || exit 2
trap 'git -C /verif worktree remove --force $V' EXIT
: > $out
for prop in "$@"; do
  for d in /verif/seeded/$prop-*; do
    name=$(basename $d); wt=/tmp/vregrepo-$$
    base=HEAD; [ -f $d/BASE ] && base=$(cat $d/BASE)
    git -C /repo worktree add -q --detach $wt $base && git -C $wt apply $d/patch.diff || { echo "$name cannot-apply" >> $out; git -C /repo worktree remove --force $wt; continue; }
    (cd $V && REPO=$wt VERIF_HANG_S=${SEED_HANG_S:-60} timeout 1200 ./run.sh check $prop quick > /tmp/vreg-$$.log 2>&1); c=$?
    git -C /repo worktree remove --force $wt
    echo "$name exit=$c violations=$(grep -c '^VIOLATION' /tmp/vreg-$$.log) $(grep -m1 'sig=' /tmp/vreg-$$.log | cut -c1-160)" >> $out
  done
done
rm -f /tmp/vreg-$$.log
