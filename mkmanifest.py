#!/usr/bin/env python3
"""Assemble MANIFEST.json from manifest.d/<ID>.json fragments (one per claimed property) and
manifest.d/_na.json (reasons for properties not claimed)."""
import json, os, glob
root = os.path.dirname(os.path.abspath(__file__))
props = [json.loads(l)['id'] for l in open(root + '/properties.jsonl')]
checks = [json.load(open(f)) for f in sorted(glob.glob(root + '/manifest.d/C*.json'))]
na = json.load(open(root + '/manifest.d/_na.json')) if os.path.exists(root + '/manifest.d/_na.json') else {}
claimed = {c['property_id'] for c in checks}
m = {
 "version": 1,
 "setup_cmd": "./setup.sh",
 "hooks": {
  "guard": "verif",
  "enable": "go build -tags verif -overlay <verif>/.build/overlay.json; the overlay is regenerated from /repo's working tree by ./run.sh on every check (mkoverlay.py): add-only hook files from /verif/hooks (all //go:build verif) are mapped into their packages, and the files importing \"sync\" are copied with that one import line pointed at the vsync shim. Nothing is committed to /repo for hooks.",
  "baseline_off_cmd": "cd /repo && go test -vet=off -count=1 ./...",
  "source_commits": [],
  "add_only": True
 },
 "engines": [{"name": "core", "path": "harness/engine/core", "serves_properties": sorted(claimed),
   "kind_free_text": "parent/worker bounded-exhaustive explorer: scope partitioned into groups enumerated simplest-first, every case executed on the code built from /repo's working tree in worker subprocesses (rlimit, heartbeat, crash/hang attribution), signatures, known findings, replays, evidence"}],
 "checks": checks,
 "not_applicable": [{"property_id": p, "reason": na.get(p, "check not built yet (work in progress; will be claimed)")} for p in props if p not in claimed],
}
extra = root + '/manifest.d/_engines.json'
if os.path.exists(extra):
    m['engines'] += json.load(open(extra))
json.dump(m, open(root + '/MANIFEST.json', 'w'), indent=1)
print("claimed:", sorted(claimed))
